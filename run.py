#!/usr/bin/env python3
"""Driver for the AVEL property checks.

  python3 run.py <Cxx> quick|thorough      run one property's check, write evidence/<Cxx>.json
  python3 run.py --replay <file>           rebuild the configuration named in a replay file and re-run its Case
  python3 run.py --setup                   compile the configuration-independent objects

Environment: VERIF_SEED (int, default 1), VERIF_REPO (default /repo), VERIF_JOBS (default 16),
VERIF_NOCACHE=1 forces recompilation, VERIF_CONFIGS=<name,name> restricts configurations (debugging).
Exit 0: property held on everything explored (known findings printed as KNOWN-FINDING);
exit 1: at least one `VIOLATION property=<id> replay=<path>`; exit 2: the check itself is broken.
"""
import os, sys, json, time, hashlib, subprocess, shutil, re, glob, fnmatch
from concurrent.futures import ThreadPoolExecutor

HERE = os.path.dirname(os.path.abspath(__file__))
sys.path.insert(0, HERE)
import configs as C
from props import PROPS  # per-property registry
import glob as _glob

REPO = os.environ.get("VERIF_REPO", "/repo")
INC = os.path.join(REPO, "include")
BUILD = os.path.join(HERE, ".build")
JOBS = int(os.environ.get("VERIF_JOBS", "16"))
SEED = int(os.environ.get("VERIF_SEED", "1") or "1")
if SEED == 0:
    SEED = 1
HARNESS = os.path.join(HERE, "harness")


def sh(cmd, **kw):
    return subprocess.run(cmd, stdout=subprocess.PIPE, stderr=subprocess.PIPE, text=True, **kw)


_tree_hash = None


def tree_hash():
    """sha256 over every file under $VERIF_REPO/include (the whole library is header-only)."""
    global _tree_hash
    if _tree_hash is None:
        h = hashlib.sha256()
        for root, dirs, files in os.walk(INC):
            dirs.sort()
            for f in sorted(files):
                p = os.path.join(root, f)
                h.update(os.path.relpath(p, INC).encode())
                with open(p, "rb") as fh:
                    h.update(fh.read())
        _tree_hash = h.hexdigest()
    return _tree_hash


_harness_hash = None


def harness_hash():
    global _harness_hash
    if _harness_hash is None:
        h = hashlib.sha256()
        for root, dirs, files in os.walk(HARNESS):
            dirs.sort()
            for f in sorted(files):
                with open(os.path.join(root, f), "rb") as fh:
                    h.update(f.encode())
                    h.update(fh.read())
        _harness_hash = h.hexdigest()
    return _harness_hash


_cxx_ver = {}


def cxx_version(cxx):
    if cxx not in _cxx_ver:
        _cxx_ver[cxx] = sh([cxx, "--version"]).stdout.split("\n")[0]
    return _cxx_ver[cxx]


def compile_obj(src, flags, cxx, key_extra="", uses_repo=True):
    """Content-addressed compile. Returns (path or None, stderr)."""
    os.makedirs(BUILD, exist_ok=True)
    key = hashlib.sha256("|".join([cxx_version(cxx), " ".join(flags), src, harness_hash(),
                                   tree_hash() if uses_repo else "", key_extra]).encode()).hexdigest()[:24]
    out = os.path.join(BUILD, os.path.basename(src).replace(".cpp", "") + "-" + key + ".o")
    if os.path.exists(out) and not os.environ.get("VERIF_NOCACHE"):
        return out, ""
    tmp = out + ".tmp%d" % os.getpid()
    cmd = [cxx] + flags + ["-I", HARNESS] + (["-I", INC] if uses_repo else []) + ["-c", src, "-o", tmp]
    r = sh(cmd)
    if r.returncode != 0:
        return None, r.stderr
    os.replace(tmp, out)
    return out, r.stderr


def link(objs, out, cxx, flags=()):
    tmp = out + ".tmp%d" % os.getpid()
    r = sh([cxx] + list(flags) + ["-o", tmp] + objs + ["-lrapidcheck", "-lm"])
    if r.returncode != 0:
        return r.stderr
    os.replace(tmp, out)
    return ""


def driver_obj(san=False, cxx="g++"):
    flags = ["-std=c++17", "-O1", "-w"]
    if san:
        flags += ["-fsanitize=address,undefined", "-DVP_SAN"]
    o, err = compile_obj(os.path.join(HARNESS, "driver.cpp"), flags, cxx, uses_repo=False)
    if o is None:
        raise SystemExit("driver.cpp failed to compile:\n" + err)
    return o


def ref_objs(prop):
    """Reference translation units compiled without AVEL (e.g. the float oracle)."""
    outs = []
    for src, flags in prop.get("ref_sources", []):
        o, err = compile_obj(os.path.join(HARNESS, src), flags, "g++", uses_repo=False)
        if o is None:
            raise SystemExit(src + " failed to compile:\n" + err)
        outs.append(o)
    return outs


def prop_cxxflags(prop, cfg):
    """flags the property adds to the check TU; a configuration marked -DVP_DEFAULT_FP keeps the compiler's own floating-point
    defaults (no -frounding-math, no -ffp-contract=off): what a user's build looks like"""
    fl = list(prop.get("cxxflags", []))
    if "-DVP_DEFAULT_FP" in cfg.extra:
        fl = [f for f in fl if f not in ("-frounding-math", "-ffp-contract=off")]
    return fl


def build_binary(prop, cfg):
    """Build the (property, configuration) binary from the current tree. Returns (path|None, log)."""
    src = os.path.join(HARNESS, "checks", prop["source"])
    flags = cfg.flags() + prop_cxxflags(prop, cfg)
    o, err = compile_obj(src, flags, cfg.cxx)
    if o is None:
        return None, err
    objs = [driver_obj(cfg.san_mode == "asan"), o] + ref_objs(prop)
    key = hashlib.sha256(" ".join(objs).encode()).hexdigest()[:16]
    exe = os.path.join(BUILD, "%s-%s-%s" % (prop["id"], cfg.name, key))
    if not os.path.exists(exe) or os.environ.get("VERIF_NOCACHE"):
        lflags = ["-fsanitize=address,undefined"] if cfg.san_mode == "asan" else []
        err2 = link(objs, exe, "g++", lflags + ["-no-pie"] + list(prop.get("ldflags", [])))
        if err2:
            return None, err2
    return exe, err


# ------------------------------------------------------------------------------------------------
# libFuzzer campaigns (thorough tier): the same check object and oracle behind LLVMFuzzerTestOneInput
# ------------------------------------------------------------------------------------------------
def fuzz_san(prop):
    # undefined behaviour is part of the oracle only where the property says so (C01, C04, C18); elsewhere a UBSan report with a correct
    # value is informational, so the fuzz build must not abort on it
    if prop.get("ub_is_violation"):
        return ["-fsanitize=fuzzer-no-link,address,undefined", "-fno-sanitize-recover=undefined", "-g1"]
    return ["-fsanitize=fuzzer-no-link,address", "-g1"]


def build_fuzz_binary(prop, cfg):
    flags = ["-std=" + ("gnu++17" if cfg.std in ("c++11", "c++14", "c++17") else "gnu++20"), "-O1", "-w"] + ["-DAVEL_" + m for m in cfg.macros] + C.mflags(cfg.macros) + fuzz_san(prop) + list(prop.get("cxxflags", []))
    if cfg.std in ("c++11", "c++14") and prop["id"] == "C18":
        flags[0] = "-std=gnu++14"
    o, err = compile_obj(os.path.join(HARNESS, "checks", prop["source"]), flags, "clang++")
    if o is None:
        return None, err
    d, err = compile_obj(os.path.join(HARNESS, "fuzz_driver.cpp"), ["-std=gnu++17", "-O1", "-w", "-g1", "-fsanitize=fuzzer,address,undefined"], "clang++", uses_repo=False)
    if d is None:
        return None, err
    objs = [d, o]
    for src, fl in prop.get("ref_sources", []):
        ro, err = compile_obj(os.path.join(HARNESS, src), fl, "g++", uses_repo=False)
        objs.append(ro)
    exe = os.path.join(BUILD, "fz-%s-%s-%s" % (prop["id"], cfg.name, hashlib.sha256(" ".join(objs).encode()).hexdigest()[:12]))
    if not os.path.exists(exe) or os.environ.get("VERIF_NOCACHE"):
        r = sh(["clang++", "-fsanitize=fuzzer,address,undefined", "-o", exe + ".tmp"] + objs + ["-lm"])
        if r.returncode != 0:
            return None, r.stderr
        os.replace(exe + ".tmp", exe)
    return exe, ""


def run_fuzz(prop, cfg, known, outdir):
    exe, err = build_fuzz_binary(prop, cfg)
    if exe is None:
        return {"config": cfg.name, "build_failed": first_error(err)}
    tag = "%s-%s" % (prop["id"], cfg.name)
    work = os.path.join(outdir, "fuzz-" + tag)
    shutil.rmtree(work, ignore_errors=True)
    os.makedirs(os.path.join(work, "corpus")); os.makedirs(os.path.join(work, "cases")); os.makedirs(os.path.join(work, "artifacts"))
    env = dict(os.environ)
    env["VP_KNOWN"] = ";".join(k["sig"] for k in known if known_applies(k, cfg))
    env["VP_FUZZ_OUT"] = os.path.join(work, "cases")
    env["VP_TIER"] = "thorough"
    env["ASAN_OPTIONS"] = "detect_leaks=1:allocator_may_return_null=1"
    runs = int(os.environ.get("VERIF_FUZZ_RUNS", str(prop.get("fuzz_runs", 400000))))
    cmd = [exe, "-runs=%d" % runs, "-seed=%d" % SEED, "-max_len=2304", "-use_value_profile=1", "-print_final_stats=1", "-artifact_prefix=" + os.path.join(work, "artifacts") + "/", os.path.join(work, "corpus")]
    t0 = time.time()
    try:
        r = subprocess.run(cmd, stdout=subprocess.PIPE, stderr=subprocess.PIPE, text=True, env=env, timeout=3600)
    except subprocess.TimeoutExpired:
        return {"config": cfg.name, "timeout": True}
    m = re.search(r"stat::number_of_executed_units:\s*(\d+)", r.stderr)
    res = {"config": cfg.name, "cfg": cfg, "exe": exe, "executed": int(m.group(1)) if m else 0, "wall": round(time.time() - t0, 1), "failures": [], "rc": r.returncode}
    for f in sorted(glob.glob(os.path.join(work, "cases", "case-*.txt"))):
        lines = open(f).read().split("\n")
        res["failures"].append({"text": lines[0], "sig": lines[1] if len(lines) > 1 else "?", "msg": lines[2] if len(lines) > 2 else ""})
    arts = [a for a in glob.glob(os.path.join(work, "artifacts", "*")) if os.path.basename(a).startswith(("crash-", "leak-"))]
    if arts and not res["failures"]:
        # a memory error / leak caught by the sanitizer itself: the artifact is the replayable unit
        keep = os.path.join(HERE, "replays", prop["id"]); os.makedirs(keep, exist_ok=True)
        dst = os.path.join(keep, "fuzz-%s-%s" % (cfg.name, os.path.basename(arts[0])))
        shutil.copy(arts[0], dst)
        msg = [l for l in r.stderr.split("\n") if "ERROR" in l or "SUMMARY" in l]
        res["failures"].append({"artifact": dst, "sig": "?|?|sanitizer:" + (msg[0][:80] if msg else "abort"), "msg": " / ".join(msg)[:500], "text": ""})
    shutil.rmtree(work, ignore_errors=True)
    return res


# ------------------------------------------------------------------------------------------------
# known findings
# ------------------------------------------------------------------------------------------------
def load_known(pid):
    path = os.path.join(HERE, "known_findings.txt")
    res = []
    if not os.path.exists(path):
        return res
    for ln in open(path):
        ln = ln.strip()
        if not ln.startswith("open:"):
            continue
        head, _, text = ln[5:].partition(" :: ")
        kv = dict(tok.split("=", 1) for tok in head.split() if "=" in tok)
        if kv.get("property") != pid:
            continue
        res.append({"configs": kv.get("configs", "*"), "sig": kv.get("sig", ""), "text": text.strip(), "id": kv.get("id", "")})
    return res


def known_applies(k, cfg):
    expr = k["configs"]
    if expr in ("*", ""):
        return True
    cl = C.closure(cfg.macros)
    names = {"GCC": cfg.cxx == "g++", "CLANG": cfg.cxx != "g++", "SAN": bool(cfg.san),
             "CXX17": cfg.std in ("c++17", "c++20"), "O0": cfg.opt == "-O0"}

    def rep(m):
        n = m.group(0)
        return str(names[n] if n in names else (n in cl))
    e = re.sub(r"[A-Za-z_][A-Za-z0-9_]*", rep, expr)
    e = e.replace("&", " and ").replace("|", " or ").replace("!", " not ")
    return bool(eval(e, {"__builtins__": {}}, {}))


# ------------------------------------------------------------------------------------------------
# configuration selection
# ------------------------------------------------------------------------------------------------
def select_configs(prop, tier):
    fn = prop.get("configs")
    if fn is not None:
        cfgs = fn(tier, INC)
    else:
        cfgs = default_configs(tier)
    only = os.environ.get("VERIF_CONFIGS")
    if only:
        want = set(only.split(","))
        cfgs = [c for c in cfgs if c.name in want or c.macro_name in want]
    return cfgs


def default_configs(tier):
    if tier == "quick":
        # the #if-arm cover with g++ -std=c++11 -O1, plus three points on the compiler / language-level / optimisation axes
        # (bit_cast, the allocator and several helpers switch on __cplusplus and AVEL_GCC vs AVEL_CLANG)
        qs = C.quick_macro_sets(os.path.join(INC, "avel"))
        # arms no (g++, C++11) build selects (guards on AVEL_CLANG, __cplusplus, ...), recomputed from the current tree
        axis = [C.Config(m, cxx=cxx, std=std, opt="-O1") for m, cxx, std in C.axis_cover(os.path.join(INC, "avel"), qs)]
        return _dedup([C.Config(m) for m in qs] + axis + [
            C.Config(list(C.EVERYTHING), cxx="clang++", std="c++20", opt="-O2"),
            C.Config(["SSE4_2"], cxx="g++", std="c++20", opt="-O2"),
            C.Config(["AVX2"], cxx="clang++", std="c++14", opt="-O1"),
            # -O0: intrinsics map to instructions literally and _mm_undefined_*() really reads an uninitialised stack slot (the driver poisons the stack)
            C.Config(["SSE2"], opt="-O0"), C.Config(["AVX2", "FMA"], opt="-O0"),
            # ... and the other rungs of the ladder unoptimised (thinned workload): an expression the optimiser rewrites into a well-defined one
            # (a - b >= 0 into a >= b) is only wrong there
            C.Config(["SSE4_1"], opt="-O0"), C.Config(["AVX512F"], opt="-O0"), C.Config(["AVX512VL", "AVX512BW"], opt="-O0"), C.Config(list(C.EVERYTHING), opt="-O0"),
            # what most users build: AVEL_AUTO_DETECT with -march=native (every extension of this CPU, detected from the compiler's macros)
            C.Config([], cxx="g++", std="c++17", opt="-O2", extra=("-DAVEL_AUTO_DETECT", "-march=native"))])
    out = [C.Config(m) for m in C.lattice_macro_sets()]
    out += [C.Config(m, cxx=cxx, std=std, opt="-O1") for m, cxx, std in C.axis_cover(os.path.join(INC, "avel"), [])]
    wide = [[], ["SSE2"], ["SSE4_1"], ["AVX2"], ["AVX512VL", "AVX512BW", "AVX512DQ", "AVX512CD"], list(C.EVERYTHING)]
    for m in wide:
        out.append(C.Config(m, cxx="clang++", std="c++11", opt="-O1"))
        out.append(C.Config(m, cxx="g++", std="c++20", opt="-O2"))
        out.append(C.Config(m, cxx="clang++", std="c++17", opt="-O2"))
        out.append(C.Config(m, cxx="g++", std="c++14", opt="-O0"))
    return _dedup(out)


def _dedup(cfgs):
    seen, res = set(), []
    for c in cfgs:
        if c.name not in seen:
            seen.add(c.name)
            res.append(c)
    return res


# ------------------------------------------------------------------------------------------------
def run_one(prop, cfg, tier, regress_path, known, outdir, mode=None, shard=None, thin=None):
    t0 = time.time()
    exe, log = build_binary(prop, cfg)
    if exe is None:
        return {"config": cfg, "build_failed": True, "log": log[-3000:]}
    out = os.path.join(outdir, "%s-%s%s.json" % (prop["id"], cfg.name, ("-%s-%d" % (mode, shard[0])) if shard else ("-" + mode if mode else "")))
    scale = prop.get("scale", {}).get(tier, 100)
    cmd = [exe, "--mode", mode or prop.get("mode", "all"), "--config", cfg.name, "--seed", str(SEED), "--tier", "0" if tier == "quick" else "1",
           "--scale", str(scale), "--out", out]
    if cfg.opt == "-O0" and tier == "quick" and not prop.get("full_O0"):
        # unoptimised builds are 3-6x slower: they run the deterministic phase thinned (every 6th Case, phase chosen by the seed), no strided sweep and a third of the random cases
        cmd[cmd.index("--mode") + 1] = "enumrc"
        cmd[cmd.index("--scale") + 1] = str(max(10, scale // 3))
        cmd += ["--enum-stride", "6"]
    if thin and "--enum-stride" not in cmd:
        # thorough tier, configuration outside the arm cover: the tier-1 deterministic phase thinned (every thin-th Case, phase chosen by the seed)
        cmd[cmd.index("--scale") + 1] = str(max(10, scale // 2))
        cmd += ["--enum-stride", str(thin)]
    if cfg.opt == "-O0":
        cmd += ["--poison-every", "1"]
    if shard:
        cmd += ["--shard", "%d/%d" % shard]
    if mode == "sweep":
        regress_path = None
    if os.environ.get("VERIF_MAXFAIL"):
        cmd += ["--max-failures", os.environ["VERIF_MAXFAIL"]]
    if regress_path:
        cmd += ["--regress", regress_path]
    if prop.get("ub_is_violation"):
        cmd += ["--ub-violation", "1"]
    if prop.get("env_fuzz"):
        cmd += ["--env-fuzz", "%d,%d" % tuple(prop["env_fuzz"])]
    for p in (out, out + ".crash"):
        if os.path.exists(p):
            os.remove(p)
    for k in known:
        if known_applies(k, cfg):
            cmd += ["--known", k["sig"]]
    env = dict(os.environ)
    ms = prop.get("max_success", {}).get(tier, 300 if tier == "quick" else 3000)
    env["RC_PARAMS"] = "seed=%d max_success=%d max_size=100" % (SEED, ms)
    env["VP_TIER"] = tier
    env["ASAN_OPTIONS"] = "detect_leaks=1:abort_on_error=0:exitcode=99:allocator_may_return_null=1"
    env["UBSAN_OPTIONS"] = "print_stacktrace=0:halt_on_error=0"
    try:
        r = subprocess.run(cmd, stdout=subprocess.PIPE, stderr=subprocess.PIPE, text=True, env=env,
                           timeout=prop.get("timeout", {}).get(tier, 1500 if tier == "quick" else 14400))
    except subprocess.TimeoutExpired:
        return {"config": cfg, "timeout": True, "exe": exe}
    res = {"config": cfg, "exe": exe, "rc": r.returncode, "stderr": r.stderr[-4000:], "wall": time.time() - t0}
    if os.path.exists(out):
        try:
            res["json"] = json.load(open(out))
        except Exception as e:
            res["json_error"] = str(e)
    elif os.path.exists(out + ".crash"):
        res["crash_case"] = open(out + ".crash").read().strip()
    return res


def regress_file(pid, outdir):
    """Collect the committed minimal cases of this property into one text file (one Case per line)."""
    files = sorted(glob.glob(os.path.join(HERE, "regressions", pid, "*.json")))
    if not files:
        return None, 0
    path = os.path.join(outdir, pid + "-regress.txt")
    n = 0
    with open(path, "w") as f:
        for p in files:
            try:
                d = json.load(open(p))
                f.write(d["case"]["text"] + "\n")
                n += 1
            except Exception:
                pass
    return path, n


def write_replay(pid, cfg, failure):
    d = os.path.join(HERE, "replays", pid)
    os.makedirs(d, exist_ok=True)
    h = hashlib.sha256((cfg.name + failure["sig"] + failure["case"]["text"]).encode()).hexdigest()[:10]
    path = os.path.join(d, "%s-%s.json" % (cfg.name, h))
    json.dump({"property": pid, "config": cfg.to_json(), "sig": failure["sig"], "msg": failure["msg"],
               "expect": failure["expect"], "actual": failure["actual"], "bad_lane": failure["bad_lane"],
               "case": failure["case"], "history": failure.get("history", []), "phase": failure.get("phase"), "seed": SEED}, open(path, "w"), indent=1)
    return path


def main_check(pid, tier):
    t0 = time.time()
    if pid not in PROPS:
        print("unknown property", pid)
        return 2
    prop = PROPS[pid]
    if "custom" in prop:
        return prop["custom"](pid, tier, sys.modules[__name__])
    outdir = os.path.join(BUILD, "out" + os.environ.get("VERIF_RUN_TAG", ""))     # VERIF_RUN_TAG: a second run of the same property at the same time (another seed) keeps its own result files
    os.makedirs(outdir, exist_ok=True)
    cfgs = select_configs(prop, tier)
    known = load_known(pid)
    rpath, nreg = regress_file(pid, outdir)
    driver_obj(False)
    if any(c.san_mode == "asan" for c in cfgs):
        driver_obj(True)
    ref_objs(prop)
    if tier == "quick":
        jobs = [(c, None, None) for c in cfgs]
    else:
        # thorough: every configuration runs the deterministic + rapidcheck phases; the large exhaustive sweeps run, sharded over
        # processes, on the arm-cover configurations (which between them execute every reachable #if arm)
        # the full tier-1 deterministic phase runs on the arm-cover configurations, on the compiler / standard axis points and on every
        # configuration the property adds on its own; the remaining lattice points (arms already executed by a cover configuration) run it thinned
        cover = {C.Config(m).name for m in C.quick_macro_sets(os.path.join(INC, "avel"))}
        full = cover | {c.name for c in select_configs(prop, "quick")}
        thin = int(os.environ.get("VERIF_THOROUGH_THIN", str(prop.get("thorough_thin", 8))))
        jobs = [(c, "enumrc", None, None if (c.name in full and (c.opt != "-O0" or prop.get("full_O0"))) else thin) for c in cfgs]
        nsh = int(os.environ.get("VERIF_SWEEP_SHARDS", "16"))
        if prop.get("sweep", True):
            # the 2^32-sized sweeps run on the main rungs of the ladder (which between them execute the arms of every instruction-set level),
            # not on every cover configuration: 18 configurations x 8 shards of 2-10 minutes each took most of an hour for one property
            rungs = {C.Config(m).name for m in ([], ["SSE2"], ["SSE4_1", "BMI"], ["AVX2"], ["AVX512F"], ["AVX512VL", "AVX512BW"], list(C.EVERYTHING))}
            for c in cfgs:
                if c.name in cover and c.name in rungs:
                    jobs += [(c, "sweep", (i, nsh), None) for i in range(nsh)]
    with ThreadPoolExecutor(max_workers=JOBS) as ex:
        results = list(ex.map(lambda j: run_one(prop, j[0], tier, rpath, known, outdir, j[1], j[2], j[3] if len(j) > 3 else None), jobs))
    extra = None
    if tier != "quick" and prop.get("fuzz"):
        fcfgs = prop["fuzz"](INC) if callable(prop["fuzz"]) else [C.Config(m) for m in ([], ["SSE2"], ["AVX2"], list(C.EVERYTHING))]
        with ThreadPoolExecutor(max_workers=JOBS) as ex:
            fres = list(ex.map(lambda c: run_fuzz(prop, c, known, outdir), fcfgs))
        extra = {"libfuzzer": [{k: v for k, v in f.items() if k not in ("cfg", "exe")} for f in fres]}
        for f in fres:
            for fl in f.get("failures", []):
                # confirm through the ordinary (non-fuzz) binary of the same configuration; the Case is configuration independent
                fake = {"sig": fl["sig"], "msg": "[libFuzzer] " + fl["msg"], "expect": [], "actual": [], "bad_lane": -1, "phase": "libfuzzer", "confirmed": 3,
                        "case": {"text": fl["text"], "target": fl["sig"].split("|")[0], "op": fl["sig"].split("|")[1] if "|" in fl["sig"] else "?", "s": [], "v": []}}
                if fl.get("artifact"):
                    fake["case"]["fuzz_artifact"] = fl["artifact"]
                results.append({"config": f["cfg"], "exe": f.get("exe"), "rc": 1, "stderr": "", "json": {"rule": "", "evaluations": 0, "lanes_compared": 0, "nontrivial": 0, "distinct_nontrivial": 0,
                                "known_excluded": 0, "not_applicable": 0, "classes": {}, "per_target": {}, "per_op": {}, "domains": [], "samples": [], "failures": [fake], "known": []}})
    return aggregate(pid, prop, tier, cfgs, results, known, nreg, t0, extra)


def aggregate(pid, prop, tier, cfgs, results, known, nreg, t0, extra_cov=None):
    viol, broken = [], []
    ev = dict(evaluations=0, lanes=0, nontrivial=0, distinct_max=0, distinct_sum=0, known_excl=0, na=0)
    classes, per_target, per_op, domains, samples = {}, {}, {}, [], []
    executed, skipped_build, known_hits = [], [], {}
    ub_reports, digests = {}, {}
    rule = ""
    for r in results:
        cfg = r["config"]
        if r.get("build_failed"):
            skipped_build.append({"config": cfg.name, "error": first_error(r["log"])})
            continue
        if r.get("timeout"):
            broken.append("%s: timed out (inconclusive)" % cfg.name)
            continue
        j = r.get("json")
        if j is None and r.get("crash_case"):
            # the process died inside a Case (sanitizer abort / fatal signal): that Case is the failing input
            msg = [l for l in r.get("stderr", "").split("\n") if "ERROR" in l or "runtime error" in l or "SUMMARY" in l]
            f = {"sig": "?|?|fatal-abort", "msg": "harness process died inside this Case: " + " / ".join(msg)[:600], "expect": [], "actual": [], "bad_lane": -1,
                 "case": {"text": r["crash_case"], "target": "?", "op": "?", "s": [], "v": []}, "phase": "?", "confirmed": 3}
            if not any(fnmatch.fnmatch(f["sig"] + ":" + f["msg"], k["sig"]) and known_applies(k, cfg) for k in known):
                path = write_replay(pid, cfg, f)
                viol.append((cfg.name, f, path))
            continue
        if j is None:
            # a crash of the harness binary itself (signal, sanitizer abort)
            tail = r.get("stderr", "")[-1500:]
            broken.append("%s: no result (exit %s) %s" % (cfg.name, r.get("rc"), tail))
            continue
        if cfg.name not in executed:
            executed.append(cfg.name)
        rule = j["rule"] or rule
        ev["evaluations"] += j["evaluations"]; ev["lanes"] += j["lanes_compared"]; ev["nontrivial"] += j["nontrivial"]
        ev["distinct_max"] = max(ev["distinct_max"], j["distinct_nontrivial"]); ev["distinct_sum"] += j["distinct_nontrivial"]
        ev["known_excl"] += j["known_excluded"]; ev["na"] += j["not_applicable"]; ev["env_fuzzed"] = ev.get("env_fuzzed", 0) + j.get("env_fuzzed", 0)
        ev["saturated"] = ev.get("saturated", False) or j.get("distinct_saturated", False)
        for k, v in j["classes"].items():
            classes[k] = classes.get(k, 0) + v
        for k, v in j["per_target"].items():
            per_target[k] = per_target.get(k, 0) + v
        for k, v in j["per_op"].items():
            per_op[k] = per_op.get(k, 0) + v
        for d in j["domains"]:
            if d not in domains:
                domains.append(d)
        for s in j["samples"][:3]:
            if len(samples) < 14:
                s = dict(s); s["config"] = cfg.name
                samples.append(s)
        for f in j["failures"]:
            mm = re.search(r"pc=(0x[0-9a-f]+)", f["msg"])
            if mm and r.get("exe"):
                try:
                    sym = sh(["addr2line", "-f", "-C", "-i", "-e", r["exe"], mm.group(1)]).stdout.strip().replace("\n", " @ ")
                    f["msg"] += " [" + sym[:300] + "]"
                except Exception:
                    pass
            if f["confirmed"] < 3:
                broken.append("%s: failure %s did not reproduce 3/3 (flaky harness?)" % (cfg.name, f["sig"]))
                continue
            path = write_replay(pid, cfg, f)
            viol.append((cfg.name, f, path))
        for k, v in j.get("ub_reports", {}).items():
            ub_reports[k] = ub_reports.get(k, 0) + v
        for k, v in j.get("digests", {}).items():
            digests.setdefault(k, {}).setdefault(v, []).append(cfg.name)
        for kh in j["known"]:
            e = known_hits.setdefault(kh["glob"], {"count": 0, "configs": [], "example": kh})
            e["count"] += kh["count"]; e["configs"].append(cfg.name)
    # health: every class the property names must have been generated
    empty = [k for k, v in classes.items() if v == 0 and k not in prop.get("optional_classes", [])]
    if executed and empty:
        broken.append("generator health: empty input classes %s" % empty)
    need = prop.get("min_configs", {}).get(tier, 1)
    if len(executed) < need:
        broken.append("only %d configurations executed, tier requires %d (build failures: %s)" % (len(executed), need, [s["config"] for s in skipped_build]))
    # configurations whose harness does not build are C19's business, but never a silent pass
    allowed_skips = prop.get("allowed_build_skips", 0)
    if len(skipped_build) > allowed_skips:
        broken.append("harness failed to build in %d configurations: %s" % (len(skipped_build), skipped_build[:3]))

    # cross-configuration differential over the deterministic phase
    digest_diff = {k: {d: c[:4] for d, c in v.items()} for k, v in digests.items() if len(v) > 1}
    if prop.get("digest_binding") and digest_diff and not viol:
        broken.append("outputs of the deterministic phase differ between configurations although every configuration agrees with the oracle: %s" % list(digest_diff.items())[:2])
    for k in known:
        hits = known_hits.get(k["sig"], {"count": 0, "configs": []})
        print("KNOWN-FINDING: property=%s %s [hits=%d in %d configurations]" % (pid, k["text"], hits["count"], len(hits["configs"])))
    seen = set()
    for cfgname, f, path in viol:
        key = (f["sig"])
        print("VIOLATION property=%s replay=%s" % (pid, os.path.relpath(path, HERE)))
        if key not in seen:
            seen.add(key)
            print("   config=%s sig=%s\n   %s\n   case=%s" % (cfgname, f["sig"], f["msg"], json.dumps({k: f["case"][k] for k in ("target", "op", "s", "v")})))
    for b in broken:
        print("BROKEN-CHECK: " + b)

    arms = {}
    try:
        msets = [list(c.macros) for c in cfgs if c.name in executed]
        arms = C.arms_selected_by(os.path.join(INC, "avel"), msets, prop.get("files"))
    except Exception as e:
        arms = {"error": str(e)}
    cov = {
        "evaluations": ev["evaluations"],
        "distinct_nontrivial": ev["distinct_max"],
        "rule": rule + " || counting: evaluations are summed over configurations; distinct_nontrivial is the largest per-configuration count of distinct non-trivial Cases (a lower bound on the union, the same Case is fed to several configurations)",
        "samples": samples,
        "exhaustive": bool(domains),
        "exhaustive_domains": domains,
        "nontrivial_evaluations": ev["nontrivial"],
        "distinct_count_saturated_at_2^22_per_config": ev.get("saturated", False),
        "distinct_nontrivial_sum_over_configs": ev["distinct_sum"],
        "lanes_compared": ev["lanes"],
        "classes": classes, "per_target": per_target, "per_op": per_op,
        "configs_executed": executed, "configs_skipped_build_failure": skipped_build,
        "if_arms": arms, "regression_cases_replayed": nreg,
        "known_findings_hit": {k: {"count": v["count"], "configs": v["configs"][:8], "example": v["example"]["case"], "msg": v["example"]["msg"]} for k, v in known_hits.items()},
        "cases_excluded_as_known": ev["known_excl"], "not_applicable_cases": ev["na"],
        "cases_run_under_a_non_default_fp_environment": ev.get("env_fuzzed", 0),
        "violation_list": [{"config": c, "sig": f["sig"], "msg": f["msg"], "replay": os.path.relpath(p, HERE)} for c, f, p in viol][:40],
        "broken": broken,
        "ub_reports": ub_reports,
        "cross_config_digest": {"targets_ops_compared": len(digests), "differing": digest_diff if len(digest_diff) < 20 else len(digest_diff)},
    }
    if extra_cov:
        cov.update(extra_cov)
    write_evidence(pid, tier, cov, prop, time.time() - t0, len(viol))
    print("%s %s: %d configurations, %d evaluations, %d lanes compared, %d distinct non-trivial, %d violations, %.1fs" % (
        pid, tier, len(executed), ev["evaluations"], ev["lanes"], ev["distinct_max"], len(viol), time.time() - t0))
    if viol:
        return 1
    if broken:
        return 2
    return 0


def write_evidence(pid, tier, cov, prop, wall, nviol):
    if os.environ.get("VERIF_CONFIGS") or os.environ.get("VERIF_RUN_TAG"):
        return      # a debugging run restricted to some configurations / a tagged side run does not describe the check: keep the evidence of the last full run
    os.makedirs(os.path.join(HERE, "evidence"), exist_ok=True)
    cov["evaluations"] = int(cov["evaluations"]); cov["distinct_nontrivial"] = int(cov["distinct_nontrivial"])
    evd = {"property_id": pid, "tier": tier, "seed": SEED, "level": "exploration", "coverage": cov,
           "assumptions": prop.get("assumptions", []) + [
               "executed natively on this sandbox's CPU (x86-64 with AVX-512); NEON/SVE, MSVC/ICPX and AVX10 arms are not compiled or run",
               "g++ 12 / clang++ 14 only"],
           "wall_s": round(wall, 2), "violations": nviol}
    tmp = os.path.join(HERE, "evidence", pid + ".json.tmp")
    json.dump(evd, open(tmp, "w"), indent=1)
    os.replace(tmp, os.path.join(HERE, "evidence", pid + ".json"))


def first_error(log):
    for ln in log.split("\n"):
        if "error" in ln:
            return ln.strip()[:300]
    return log.strip()[:300]


def main_replay(path):
    d = json.load(open(path))
    pid = d["property"]
    prop = PROPS[pid]
    if "custom_replay" in prop:
        return prop["custom_replay"](d, path, sys.modules[__name__])
    cfg = C.Config.from_json(d["config"])
    exe, log = build_binary(prop, cfg)
    if exe is None:
        print("replay: build failed\n" + log[-2000:])
        return 2
    cmd = [exe, "--mode", "replay", "--config", cfg.name, "--case", d["case"]["text"]]
    if d.get("history"):
        # a failure that needs the Cases executed before it (state carried between calls): they are replayed first
        hp = os.path.join(BUILD, "history-%d.txt" % os.getpid())
        open(hp, "w").write("\n".join(d["history"]) + "\n")
        cmd += ["--history-file", hp]
    r = subprocess.run(cmd, stdout=subprocess.PIPE, stderr=subprocess.STDOUT, text=True)
    print(r.stdout.strip())
    if r.returncode == 0:
        return 0
    if r.returncode == 3:
        return 2
    print("VIOLATION property=%s replay=%s" % (pid, path))
    return 1


def main():
    if len(sys.argv) >= 3 and sys.argv[1] == "--replay":
        return main_replay(sys.argv[2])
    if len(sys.argv) >= 2 and sys.argv[1] == "--setup":
        driver_obj(False); driver_obj(True)
        for p in PROPS.values():
            if "custom" not in p:
                ref_objs(p)
        print("setup ok")
        return 0
    if len(sys.argv) < 3:
        print(__doc__)
        return 2
    return main_check(sys.argv[1], sys.argv[2])


if __name__ == "__main__":
    sys.exit(main())
