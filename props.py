"""Per-property registry: source file of the check object, files whose #if arms are counted,
tier parameters."""
import glob, os
import configs as C

VEC = "include/avel/impl/vectors/"
INT_VEC_FILES = [VEC + "Vec%s%s.hpp" % (w, s) for w in ("1x8", "1x16", "1x32", "1x64", "16x8", "8x16", "4x32", "2x64", "32x8", "16x16", "8x32", "4x64", "64x8", "32x16", "16x32", "8x64") for s in "ui"]
FLT_VEC_FILES = [VEC + "Vec%s.hpp" % w for w in ("1x32f", "1x64f", "4x32f", "2x64f", "8x32f", "4x64f", "16x32f", "8x64f")]
SCALAR_FILES = ["include/avel/impl/scalars/Scalar%s.hpp" % s for s in ("8u", "8i", "16u", "16i", "32u", "32i", "64u", "64i", "32f", "64f")]

def cfgs_with_san(tier, inc):
    import run
    out = run.default_configs(tier)
    out.append(C.Config([], san="asan"))
    out.append(C.Config([], cxx="clang++", std="c++11", opt="-O1", san="ubtrap"))
    out.append(C.Config(["POPCNT", "LZCNT", "BMI", "BMI2"], cxx="clang++", std="c++17", opt="-O1", san="ubtrap"))
    out.append(C.Config([], cxx="g++", std="c++17", opt="-O2", san="ubtrap"))
    return out


def cfgs_default_fp(tier, inc):
    """default configurations + Clang builds that keep the compiler's own floating-point defaults (no -frounding-math / -ffp-contract=off on the
    check TU) on FMA-capable targets: whether two AVEL operators in one expression stay two IEEE operations is decided by what the headers make
    of the compiler's defaults. (g++ is left out: its -ffp-contract=fast default fuses any a*b+c, AVEL or plain scalar code alike.)"""
    import run
    out = run.default_configs(tier)
    dfp = ("-DVP_DEFAULT_FP",)
    out.append(C.Config(["AVX2", "FMA"], cxx="clang++", std="c++11", opt="-O2", extra=dfp))
    out.append(C.Config(list(C.EVERYTHING), cxx="clang++", std="c++17", opt="-O1", extra=dfp))
    out.append(C.Config([], cxx="clang++", std="c++14", opt="-O2", extra=dfp + ("-mfma",)))
    if tier != "quick":
        out.append(C.Config(["AVX512F"], cxx="clang++", std="c++20", opt="-O3", extra=dfp))
        out.append(C.Config(["FMA"], cxx="clang++", std="c++11", opt="-O1", extra=dfp))
        out.append(C.Config([], cxx="clang++", std="c++17", opt="-O2", extra=dfp + ("-DAVEL_AUTO_DETECT", "-march=native")))
    return out


def cfgs_scalar_sets(tier, inc):
    """default configurations + the scalar instruction-set ladders (X86 bsr/bsf, LZCNT, BMI, POPCNT) at -O1 and -O2, both compilers"""
    import run
    out = run.default_configs(tier)
    for m in ([], ["X86"], ["POPCNT"], ["LZCNT"], ["BMI"], ["BMI2"], ["POPCNT", "LZCNT", "BMI", "BMI2"]):
        out.append(C.Config(m, cxx="g++", std="c++11", opt="-O2"))
        out.append(C.Config(m, cxx="clang++", std="c++17", opt="-O2"))
        out.append(C.Config(m, cxx="g++", std="c++11", opt="-O1"))
        out.append(C.Config(m, cxx="g++", std="c++20", opt="-O2"))
    for m in (["SSE2"], ["SSE2", "X86"], ["AVX2", "LZCNT"], ["SSE4_1", "BMI"]):
        out.append(C.Config(m, cxx="clang++", std="c++20", opt="-O1"))
    seen, res = set(), []
    for c in out:
        if c.name not in seen:
            seen.add(c.name); res.append(c)
    return res


def cfgs_with_O0(tier, inc):
    """default configurations + -O0 builds (at -O0 an aligned-only intrinsic maps to the aligned instruction literally) + -O2 / -O3 builds with the
    compilers' default strict aliasing (every other build passes -fno-strict-aliasing): type-based alias analysis may reorder a caller's
    typed element accesses around a library access made through another type"""
    import run
    out = run.default_configs(tier)
    sa = ("-fstrict-aliasing",)
    out += [C.Config(["SSE2"], opt="-O2", extra=sa), C.Config(["AVX2"], std="c++17", opt="-O3", extra=sa), C.Config(list(C.EVERYTHING), cxx="clang++", std="c++17", opt="-O2", extra=sa),
            C.Config([], std="c++14", opt="-O2", extra=sa)]
    if tier != "quick":
        out += [C.Config(m, cxx=cxx, std="c++20", opt="-O2", extra=sa) for m in (["SSE4_1"], ["AVX512F"], ["AVX512VL", "AVX512BW"]) for cxx in ("g++", "clang++")]
    for m in ([], ["SSE2"], ["SSE4_1"], ["AVX2"], ["AVX512VL", "AVX512BW"], list(C.EVERYTHING)):
        out.append(C.Config(m, cxx="g++", std="c++11", opt="-O0"))
        if tier != "quick":
            out.append(C.Config(m, cxx="clang++", std="c++17", opt="-O0"))
    seen, res = set(), []
    for c in out:
        if c.name not in seen:
            seen.add(c.name); res.append(c)
    return res


FPREF = [("ref/fpref.cpp", ["-O0", "-frounding-math", "-ffp-contract=off", "-w"])]

def cfgs_alloc(tier, inc):
    """the three implementations selected by the build: C++11/14 over-allocation, C++17/20 aligned_alloc, SSE _mm_malloc; each plain, under ASan+UBSan and under UBSan-trap"""
    out = []
    pts = [([], "c++11"), ([], "c++14"), ([], "c++17"), ([], "c++20"), (["SSE2"], "c++11"), (["SSE2"], "c++17"),
           # x86 without any SIMD macro (AVEL_X86 defined, AVEL_SSE not): allocate and deallocate must pick the same implementation
           (["X86"], "c++11"), (["POPCNT", "LZCNT"], "c++14")]
    if tier != "quick":
        pts += [(["X86"], "c++17"), (["BMI2"], "c++20"), (["AVX2"], "c++14"), (list(C.EVERYTHING), "c++20")]
    # release builds (-DNDEBUG, -O2): anything the allocator does inside an assert() disappears
    nd = ("-DNDEBUG",)
    out += [C.Config([], std="c++11", opt="-O2", extra=nd), C.Config([], cxx="clang++", std="c++14", opt="-O2", extra=nd), C.Config(["SSE2"], std="c++17", opt="-O2", extra=nd),
            C.Config([], std="c++20", opt="-O2", extra=nd)]
    for macros, std in pts:
        out.append(C.Config(macros, cxx="g++", std=std, opt="-O1"))
        out.append(C.Config(macros, cxx="g++", std=std, opt="-O1", san="asan"))
        out.append(C.Config(macros, cxx="clang++", std=std, opt="-O1", san="ubtrap"))
        if tier != "quick":
            out.append(C.Config(macros, cxx="clang++", std=std, opt="-O2"))
            out.append(C.Config(macros, cxx="g++", std=std, opt="-O0", san="asan"))
    return out


def cfgs_prefetch(tier, inc):
    out = []
    for macros in ([], ["SSE2"], ["X86"]):
        for cxx in ("g++", "clang++"):
            for opt in (("-O0", "-O1", "-O2") if tier != "quick" else ("-O0", "-O2")):
                out.append(C.Config(macros, cxx=cxx, std="c++11" if cxx == "g++" else "c++17", opt=opt))
    # the documented AVEL_Ln_CACHE_LINE_SIZE overrides (docs/Cache.md): the loop stride is no longer 64 and differs per level
    lines = ("-DAVEL_L1_CACHE_LINE_SIZE=32", "-DAVEL_L2_CACHE_LINE_SIZE=128", "-DAVEL_L3_CACHE_LINE_SIZE=256")
    out.append(C.Config([], extra=lines, opt="-O2")); out.append(C.Config(["SSE2"], cxx="clang++", std="c++17", extra=lines, opt="-O1"))
    if tier != "quick":
        out.append(C.Config(list(C.EVERYTHING), opt="-O2")); out.append(C.Config(["AVX2"], cxx="clang++", std="c++20", opt="-O1"))
        out.append(C.Config(["SSE2"], extra=("-DAVEL_L1_CACHE_LINE_SIZE=128", "-DAVEL_L2_CACHE_LINE_SIZE=32", "-DAVEL_L3_CACHE_LINE_SIZE=16"), opt="-O0"))
    return out


def _c19_run(pid, tier, runmod):
    import c19
    return c19.run(pid, tier, runmod)


def _c19_replay(d, path, runmod):
    import c19
    return c19.replay(d, path, runmod)


PROPS = {
    "C01": {"id": "C01", "env_fuzz": (7, 0), "source": "c01.cpp", "files": INT_VEC_FILES, "min_configs": {"quick": 8, "thorough": 30},
            "configs": cfgs_with_san, "ub_is_violation": True, "digest_binding": True},
    "C04": {"id": "C04", "env_fuzz": (7, 0), "source": "c04.cpp", "files": INT_VEC_FILES + SCALAR_FILES[:8], "min_configs": {"quick": 8, "thorough": 30},
            "configs": cfgs_with_san, "ub_is_violation": True},
    "C06": {"id": "C06", "env_fuzz": (7, 0), "source": "c06.cpp", "files": INT_VEC_FILES + SCALAR_FILES[:8] + ["include/avel/impl/Constants.hpp"], "min_configs": {"quick": 8, "thorough": 30},
            "configs": cfgs_scalar_sets},
    "C07": {"id": "C07", "env_fuzz": (7, 1), "source": "c07.cpp", "files": INT_VEC_FILES + FLT_VEC_FILES + SCALAR_FILES, "min_configs": {"quick": 8, "thorough": 30}},
    "C05": {"id": "C05", "env_fuzz": (7, 0), "source": "c05.cpp", "files": INT_VEC_FILES, "min_configs": {"quick": 8, "thorough": 30}, "scale": {"quick": 300, "thorough": 300}},
    "C03": {"id": "C03", "env_fuzz": (7, 7), "source": "c03.cpp", "files": INT_VEC_FILES + FLT_VEC_FILES, "min_configs": {"quick": 8, "thorough": 30}, "optional_classes": ["noncanonical_representation_seen"],
            "max_success": {"quick": 1500, "thorough": 20000}},
    "C08": {"id": "C08", "env_fuzz": (7, 7), "fuzz": True, "full_O0": True, "source": "c08.cpp", "files": INT_VEC_FILES + FLT_VEC_FILES, "min_configs": {"quick": 8, "thorough": 30}, "configs": cfgs_with_O0,
            "optional_classes": ["range_ends_at_guard_page", "range_starts_after_guard_page", "wild_index_in_inactive_lane", "n_zero_pointer_into_guard_page"]},
    "C09": {"id": "C09", "env_fuzz": (7, 7), "full_O0": True, "source": "c08.cpp", "cxxflags": ["-DVP_PROP_C09", "-pthread"], "ldflags": ["-pthread"], "files": INT_VEC_FILES + FLT_VEC_FILES, "min_configs": {"quick": 8, "thorough": 30}, "configs": cfgs_with_O0,
            "optional_classes": ["unaligned_address", "negative_index", "ordinary"]},
    "C10": {"id": "C10", "source": "c10.cpp", "files": FLT_VEC_FILES + SCALAR_FILES[8:], "min_configs": {"quick": 8, "thorough": 30}, "configs": cfgs_default_fp,
            "cxxflags": ["-frounding-math", "-ffp-contract=off"], "ref_sources": FPREF, "max_success": {"quick": 1000, "thorough": 10000}},
    "C11": {"id": "C11", "source": "c11.cpp", "files": FLT_VEC_FILES + SCALAR_FILES[8:], "min_configs": {"quick": 8, "thorough": 30},
            "cxxflags": ["-frounding-math", "-ffp-contract=off"], "ref_sources": FPREF, "optional_classes": ["zero_sign_differs_from_libm"]},
    "C12": {"id": "C12", "source": "c12.cpp", "files": FLT_VEC_FILES + SCALAR_FILES[8:], "min_configs": {"quick": 8, "thorough": 30},
            "cxxflags": ["-frounding-math", "-ffp-contract=off"], "ref_sources": FPREF},
    "C13": {"id": "C13", "env_fuzz": (0, 1), "source": "c13.cpp", "files": FLT_VEC_FILES + SCALAR_FILES[8:], "min_configs": {"quick": 8, "thorough": 30},
            "cxxflags": ["-frounding-math", "-ffp-contract=off"], "ref_sources": FPREF},
    "C14": {"id": "C14", "env_fuzz": (7, 0), "fuzz": True, "source": "c14.cpp", "files": ["include/avel/impl/denominators/Denominator%s.hpp" % s for s in ("8u", "8i", "16u", "16i", "32u", "32i", "64u", "64i")] + ["include/avel/impl/scalars/Scalars.hpp"],
            "min_configs": {"quick": 8, "thorough": 30}, "configs": cfgs_scalar_sets, "optional_classes": ["distinct_divisors_in_lanes", "broadcast_from_scalar_denominator"], "max_success": {"quick": 3000, "thorough": 50000}},
    "C15": {"id": "C15", "env_fuzz": (7, 0), "source": "c14.cpp", "cxxflags": ["-DVP_PROP_C15"], "files": [f.replace("vectors/Vec", "denominator_vectors/Denominator") for f in INT_VEC_FILES], "min_configs": {"quick": 8, "thorough": 30}},
    "C16": {"id": "C16", "fuzz": True, "source": "c16.cpp", "files": SCALAR_FILES + [VEC + "Vec1x%s.hpp" % s for s in ("8u", "8i", "16u", "16i", "32u", "32i", "64u", "64i", "32f", "64f")],
            "min_configs": {"quick": 8, "thorough": 30}, "configs": cfgs_scalar_sets, "cxxflags": ["-frounding-math", "-ffp-contract=off"], "ref_sources": FPREF,
            "optional_classes": ["scalar_and_vector_differ_only_in_zero_sign"]},
    "C17": {"id": "C17", "env_fuzz": (7, 1), "source": "c17.cpp", "files": INT_VEC_FILES + [VEC + "Vectors.hpp", "include/avel/Misc.hpp"], "min_configs": {"quick": 8, "thorough": 30}},
    "C18": {"id": "C18", "fuzz": lambda inc: [C.Config([], std="c++11"), C.Config([], std="c++17"), C.Config(["SSE2"])], "fuzz_runs": 50000, "source": "c18.cpp", "files": ["include/avel/Aligned_allocator.hpp"], "min_configs": {"quick": 6, "thorough": 10}, "configs": cfgs_alloc, "ub_is_violation": True,
            "max_success": {"quick": 500, "thorough": 2000}},
    "C20": {"id": "C20", "full_O0": True, "source": "c20.cpp", "files": ["include/avel/Cache.hpp"], "min_configs": {"quick": 6, "thorough": 12}, "configs": cfgs_prefetch, "max_success": {"quick": 3000, "thorough": 100000},
            "optional_classes": []},
    "C19": {"id": "C19", "custom": _c19_run, "custom_replay": _c19_replay, "files": []},
    "C02": {"id": "C02", "env_fuzz": (7, 1), "source": "c02.cpp", "files": INT_VEC_FILES + FLT_VEC_FILES, "min_configs": {"quick": 8, "thorough": 30}, "digest_binding": True},
}

MANIFEST_TEXT = {
    "C19": {
        "technique": "generated-configuration testing: enumerated lattice of feature-macro sets x {explicit, AVEL_AUTO_DETECT} x {g++, clang++} x {C++11..20} and (thorough) Hypothesis-drawn random macro subsets shrunk to a minimal failing set; oracle = compiler/linker exit status of three generated programs (include-only, static_asserts on the documented type system, generic program over a fixed operation table that is compiled and linked)",
        "level": "Generated-input search over build configurations: P1 includes <avel/Avel.hpp> + <avel/Aligned_allocator.hpp>; P2 static_asserts that exactly the documented widths are complete types (and neighbouring widths are not), sizeof == N*sizeof(T), trivially copyable, masks trivial, width constants, vecNx*/vecMx*/maskNx*/arrNx* alias identities, max width == widest provided, and under AUTO_DETECT the same types as naming the compiler-defined feature macros explicitly; P3 instantiates every operation of the width-1 type for every wider type of the element (incl. Denominator<V>, convert, allocator, prefetch) and must link. Each distinct error (header location, failed assertion, undefined symbol) is reported separately. The link program is built from two translation units (one definition rule) and, in the quick tier too, for every minimal macro set that selects each #if arm and for the arms only another compiler / standard selects. The link program also binds every reference an assigning operator returns, uses const operands on both sides of every operator and function, and the static_assert program checks the documented member aliases (rebind_width, rebind_type, scalar, mask).",
        "note": "Trusted: g++ 12 / clang++ 14 as the oracle; flags are derived from the documented implications. The operation table is hand-written from the pinned width-1 API (binary operator% on floats is not offered by width 1 and is not in it). MSVC/ICPX/ARM configurations cannot be built here.",
        "engine": "enumerator + Hypothesis (build configurations)",
    },
    "C20": {
        "technique": "property-based testing / fault injection by placement: enumerated + rapidcheck-generated prefetch calls with pointers at every cache-line offset, next to and inside PROT_NONE pages, null and misaligned, counts 0..3 pages, all cache levels, typed and untyped; signal guard + arena checksum + /proc/self/maps protection check",
        "level": "Generated-input search over (overload, cache level, pointer placement, offset, n) for prefetch_read / prefetch_write in builds {no macro, AVEL_X86, AVEL_SSE2} x {g++, clang++} x {-O0, -O2 (+ -O1 in thorough)}: the call must return without SIGSEGV/SIGBUS/SIGILL (a fault becomes a failing Case), every byte of the accessible arena must still hold its sentinel and the kernel's view of the six arena pages' protections must be unchanged. Pointers in the first and the last cache line of the address space and builds with non-default AVEL_Ln_CACHE_LINE_SIZE values are included; the kernel's page protections are read back after every third Case. A few calls use counts of 2 MiB, 16 MiB and just over 4 GiB.",
        "note": "Trusted: mmap/mprotect, /proc/self/maps, host CPU (prefetch instructions never fault architecturally), compilers. n is bounded to three pages because the loop is linear in n. AVEL_PREFETCH alone cannot be built (Verify_capabilities tests a macro no compiler defines); that is C19's finding.",
    },
    "C18": {
        "technique": "model-based (stateful) property testing: rapidcheck-generated and enumerated allocate/deallocate/fill/verify/rebind/std::vector histories on 16 Aligned_allocator<T,A> instantiations, checked after every command against a shadow map of live ranges, in the three implementations selected by the build, each also under ASan+UBSan and UBSan-trap; libFuzzer target in the thorough tier",
        "level": "Generated-history search: histories (shrunk as one value) of allocate(n) with n biased to 0, 1, odd byte sizes and exact multiples of A, deallocation in arbitrary order, re-fill, reallocation moves, rebound allocators and std::vector growth/copy/move/swap; invariants after every command: pointer aligned to A, live ranges pairwise disjoint, every byte (including the last) of every live block still holds its pattern; every block freed exactly once with its own n. Builds: no macro C++11/14 (over-allocation), no macro C++17/20 (aligned_alloc), AVEL_SSE2 (_mm_malloc); ASan reports (overflow, invalid free, leak) kill the process inside the Case and become a violation with that history as replay; UBSan runs in trap mode so undefined behaviour is a failing, shrinkable Case. Builds include x86 configurations without any SIMD macro (AVEL_X86 only, POPCNT+LZCNT) at C++11/14. Release builds (-DNDEBUG, -O2) are included.",
        "note": "Trusted: ASan/UBSan, glibc malloc, compilers. T of size 1,2,4,8,16,64 and A from alignof(T) to 4096 are a fixed pool of 16 instantiations, not all combinations. Block sizes are capped at 4 KiB (quick) / 64 KiB (thorough). Allocation failure (nullptr from malloc) is not injected.",
    },
    "C17": {
        "technique": "property-based testing over a fixed table (snapshot of the pinned commit) of the 108 provided conversions + identities + bit_cast pairs: exhaustive 8/16-bit lane values and all mask patterns for N<=16, lattices + rapidcheck otherwise; static_cast-per-lane oracle, constructor == convert, round trip",
        "level": "Generated-input search over (source type, destination type, form) for convert<>, the converting constructors Vector<T,N>(Vector<U,N>) / Vector_mask<T,N>(Vector_mask<U,N>), the reverse conversion of the converted value, convert<V>(V), avel::bit_cast between same-size vectors, between masks of identical representation and between scalars; masks are read back through the primitive, extract<I> and count, and a non-canonical representation after a conversion is a failure. bit_cast is also exercised between every two vector / mask types with the same primitive type and object size (bytes of the primitive compared, both directions). Half of the Cases run under a rounding mode / FTZ / DAZ setting derived from the Case (the results must not depend on the floating-point environment).",
        "note": "Trusted: static_cast as the lane oracle, host CPU, compilers. The table is a committed snapshot: a specialisation deleted from the tree makes the harness fail to link (reported as a broken check here and as a violation by C19), never a silently smaller test.",
    },
    "C16": {
        "technique": "differential property-based testing: for every function that has both a scalar overload and a vector form, the scalar result of each lane's input is compared with that lane of the vector result (heterogeneous neighbours, every width present), over exhaustive 8/16-bit inputs, strided/exhaustive 32-bit inputs, lattices + rapidcheck; mixed-sign cmp_* against an __int128 oracle",
        "level": "Generated-input search over 60 functions (bit functions, rotl/rotr, min/max/clamp, abs/neg_abs/negate, average/midpoint, keep/clear/blend, ceil..rint, sqrt, logb, frac, fmax/fmin/fdim/copysign, frexp/ldexp/scalbn, ilogb/fpclassify, isnan..signbit, isgreater..isunordered) x all 40 vector types x configurations = arm cover + scalar ladders {none,X86,POPCNT,LZCNT,BMI,BMI2} x {g++,clang++} x {-O1,-O2}; which side is wrong is decided by the independent oracles of C06/C07/C11-C13; cmp_equal/.../cmp_greater_equal for (signed, unsigned) and (unsigned, signed) operands of all four widths compare the mathematical values.",
        "note": "Trusted: host CPU, compilers; the oracle-free differential cannot see a defect shared by both sides (C06/C07/C11-C13 cover that). Not compared (outside the documented domain or owned elsewhere): signed bit_floor/bit_ceil of negatives, clamp with lo == hi or a NaN operand, float min/max with NaN, fmax/fmin with a signalling NaN, ldexp/scalbn outside the region where C12 has no known finding; float results differing only in the sign of zero are counted, not flagged.",
    },
    "C14": {
        "technique": "property-based testing: exhaustive 8-bit (quick) / 16-bit (thorough) (n, d) pairs, per-divisor boundary numerators (multiples of d nearest the range ends +-1) over the divisor lattice + rapidcheck, __int128 division oracle + q*d+r==n, SIGFPE guard; libFuzzer target in the thorough tier",
        "level": "Generated-input search over (n, d), d != 0, for the eight scalar Denominator<T> types and the forms div, /, %, /=, %=, value() in every configuration incl. the scalar instruction-set ladders (none/X86/POPCNT/LZCNT/BMI/BMI2 x g++/clang++ x -O1/-O2): d from {+-1, +-2^k, +-(2^k+-1), MAX, MIN, random}, n from {0, +-1, MIN, MAX, k*d and k*d+-1 at both range ends, random}; construction and use run under the signal guard. Divisors include the reciprocal family d = floor(2^k/c)+1 (c in [2^(B/2-1), 2^(B/2)), 16 000 / 120 000 per 64-bit type), and avel::div_64uhi_by_64u, the 128-by-64-bit division behind every 64-bit multiplier, is compared directly with unsigned __int128 on operands constructed so that a trial digit of the portable long division sits on its correction edge. Half of the Cases run under a rounding mode / FTZ / DAZ setting derived from the Case (the results must not depend on the floating-point environment).",
        "note": "Trusted: __int128 oracle, host CPU, compilers. (MIN, -1) is excluded for signed types as the property says. Exhaustive for 8-bit pairs only in the quick tier.",
    },
    "C15": {
        "technique": "property-based testing: exhaustive 8-bit (n, d) lane pairs with different divisors in different lanes, boundary numerators per divisor + rapidcheck; differential between Denominator<V>(Denominator<T>(d)), Denominator<V>(V{d}) and the __int128 quotient; SIGFPE guard",
        "level": "Generated-input search over numerator vectors x divisor vectors (non-zero, different per lane, every divisor class visiting every lane) for div, /, %, /=, %=, value() on every integer vector type, and over every scalar divisor for the broadcast constructor (all 8-bit d exhaustively, lattice + random otherwise); the broadcast form must agree lane for lane with the vector-built denominator and with the native quotient; a missing broadcast constructor is itself a failure. Divisor vectors include blocks of equal lanes ({a,a,b,b}, one uniform block next to different lanes, a repeating period). Half of the Cases run under a rounding mode / FTZ / DAZ setting derived from the Case (the results must not depend on the floating-point environment).",
        "note": "Trusted: __int128 oracle, host CPU, compilers. MIN/-1 lanes are avoided by moving the numerator. 16-bit pairs are exhaustive only in the thorough tier.",
    },
    "C13": {
        "technique": "property-based testing: strided/exhaustive sweep of all binary32 bit patterns, stratified binary64 patterns (every exponent, both NaN kinds, both signs), special-value cross products + rapidcheck pairs, bit-field oracle cross-checked against <cmath>",
        "level": "Generated-input search over every float vector type and the scalar overloads in every configuration: fpclassify/isnan/isinf/isfinite/isnormal/signbit on every 1019th binary32 pattern (quick) or all 2^32 (thorough) and on every binary64 exponent x mantissa boundary x sign; isgreater/isgreaterequal/isless/islessequal/islessgreater/isunordered on the special-value cross product (zeros, subnormals, infinities, quiet and signalling NaNs of both signs, adjacent values) plus random pairs. Oracle: classification from the exponent/mantissa fields (must agree with std::fpclassify, otherwise the run reports a harness error), ordered comparison on a sign-magnitude key with NaN -> false. Every mask a function returns is also handed to keep / clear / blend with an all-ones and a patterned vector (whole lanes must move); float targets also run under directed rounding modes set by the driver.",
        "note": "Trusted: the bit-field oracle and glibc's fpclassify constants, host CPU, compilers. Pairs are sampled; unary predicates are exhaustive for binary32 only in the thorough tier.",
    },
    "C12": {
        "technique": "property-based testing: strided/exhaustive binary32 sweeps, value-class x exponent grids with a different exponent in every lane, special-value cross products + rapidcheck, differential against glibc (frexp/ldexp/scalbn/ilogb/logb, x-trunc(x), fdim) with a binary64 second opinion for binary32 ldexp, validity predicates for fmax/fmin",
        "level": "Generated-input search over every float vector type and the scalar overloads in every configuration: frexp/ilogb/logb/frac on every 1021st binary32 pattern (quick) or all 2^32 (thorough) and stratified binary64; ldexp/scalbn on every value class x exponents {INT_MIN, -2^20, -400..400, 2^20, INT_MAX, boundary exponents}; fmax/fmin/fdim on the special-value cross product. frexp: significand and exponent equal to libm, zeros return themselves bit-for-bit with exponent 0, inf/NaN return themselves; ldexp/scalbn bit-equal to glibc; ilogb specials FP_ILOGB0/FP_ILOGBNAN/INT_MAX; fmax/fmin: the other operand bit-for-bit when exactly one operand is a (quiet) NaN, otherwise bit-equal to an operand and correctly ordered. The out-parameter of frexp holds garbage before the call.",
        "note": "Trusted: glibc as reference, host CPU, compilers. Accepted as open: either zero of a +-0 pair for fmax/fmin, either sign of a zero frac/fdim result, a NaN result when the NaN operand of fmax/fmin is signalling (what IEEE maxNum and glibc do), the exponent written by frexp for inf/NaN. Known findings (ldexp/scalbn emulation outside the comfortable range in the SSE2..AVX2 arms) are listed in known_findings.txt and excluded by input class.",
    },
    "C11": {
        "technique": "property-based testing: strided (quick) / exhaustive (thorough) sweep of all 2^32 binary32 patterns, stratified binary64 values and lattice + rapidcheck, differential against glibc under the same rounding mode; FP-environment invariant (MXCSR control bits, x87 control word) observed around every call and around a sample of 40 other AVEL operations under each rounding mode and FTZ/DAZ setting",
        "level": "Generated-input search: every 1031st binary32 pattern with a seed-dependent phase (quick) or all 2^32 (thorough) for ceil/floor/trunc/round and for nearbyint/rint under each of the four rounding modes, every float vector width and the scalar overloads; binary64: every exponent x boundary mantissas, half-integers and neighbours around 2^51..2^53. Comparison: NaN->NaN; integral/infinite inputs must come back as the same number; otherwise numerically equal to libm (a differing zero sign is counted, not flagged, because the statement says 'the same number'). Environment: control state before == after, for the rounding functions and for arithmetic, comparisons, classification, frexp/ldexp/ilogb, integer div/average/etc. The six rounding functions also run with every FTZ/DAZ combination; values are compared for every lane whose input is not subnormal. The rounding mode is also set through MXCSR only and through the x87 control word only; the environment invariant is sampled over 68 float operations and, on the integer vector types, over 40 integer operations.",
        "note": "Trusted: glibc rounding functions and fesetround as reference, host CPU, compilers honouring -frounding-math. ceil/floor/trunc/round are compared in round-to-nearest only (the statement quantifies the four modes over nearbyint/rint). With FTZ/DAZ enabled, lanes with a subnormal input are not compared.",
    },
    "C10": {
        "technique": "property-based testing: float lattice cross products + rapidcheck bit patterns x four rounding modes, differential against the scalar IEEE operation executed in a reference TU compiled without AVEL (-O0 -frounding-math), binary64 second opinion for binary32, per build configuration",
        "level": "Generated-input search over operand pairs (every exponent x boundary mantissas, zeros, subnormals, infinities, quiet/signalling NaNs, halfway cases, random patterns) x {+,-,*,/, compound forms, ++/--, unary minus, sqrt, scalar sqrt} x 4 rounding modes on every float/double vector type incl. width 1, every configuration; results compared bit-for-bit (NaN by NaN-ness; unary minus bit-for-bit incl. NaN payload) with the hardware/glibc scalar result under the same mode; binary32 + - * / sqrt also against a binary64 recomputation rounded once (disagreement between the two oracles = harness error, not a violation); MXCSR/x87 control words compared before/after. Two-operator sequences (a*b+c, a*b-c, t*=b; t+=c) are compared with two separately rounded reference operations (a class counts the triples for which a fused multiply-add would differ), also in Clang builds that keep the compiler's floating-point defaults on FMA targets. Further forms: self-aliased and chained compound assignments, ++(++x), and one operand given as a literal the optimiser can see (16 literals x 6 forms).",
        "note": "Trusted: host FPU and glibc as the IEEE reference, fesetround, compilers honouring -frounding-math. Pairs are sampled (lattice cross product + random), never exhaustive. g++ builds with the compiler's default -ffp-contract=fast are not checked for fusion across operators: that default fuses plain scalar a*b+c as well.",
    },
    "C08": {
        "technique": "property-based testing: enumerated (every n in 0..width+2 x every element offset in a 64-element window, every lane index) + rapidcheck memory operations against a byte-array memory model with sentinels, under a signal guard, per build configuration incl. -O0",
        "level": "Generated-input search over (operation form, n, offset, payload, indices) for load/aligned_load/store/aligned_store (run-time and compile-time counts), gather/scatter (negative and positive, pairwise distinct active indices), extract<I>/insert<I>, to_array and the array constructor on all 40 vector types; oracle: loaded lanes = p[0..min(n,w)) then zeros; after a store/scatter the two-page sentinel buffer differs from its pre-image exactly in the addressed elements; faults are outcomes (an aligned-only instruction in an unaligned form shows up as SIGSEGV, -O0 builds map intrinsics literally). Four operations write / read the elements through lvalues of the element type right around a load / store inside one function, in -O2 / -O3 builds with the compilers' default strict aliasing. Half of the Cases run under a rounding mode / FTZ / DAZ setting derived from the Case (the results must not depend on the floating-point environment).",
        "note": "Trusted: the byte-array model, host CPU, compilers. Aligned forms are only given alignof(vector)-aligned addresses (documented precondition). Scatter cases with duplicate active indices are not generated (indices are made distinct by construction).",
    },
    "C09": {
        "technique": "property-based testing / fault injection by placement: the C08 operations generated with the addressed element range flush against PROT_NONE guard pages (ending at a page end, starting at a page start, n=0 with the pointer inside the guard page, wild indices in inactive gather/scatter lanes); any signal or changed sentinel outside the addressed bytes fails",
        "level": "Generated-input search: every n in 0..width+2 for every load/store/gather/scatter form and vector type with the buffer placed against inaccessible pages on either side, plus rapidcheck payloads/indices; oracle: no SIGSEGV/SIGBUS (signal guard turns a fault into a failing Case) and all sentinel bytes outside [p, p+min(n,w)) unchanged. A partial store (all four store forms, n = 1, w/2, w-1) is also repeated while a second thread keeps rewriting and re-reading the elements behind the addressed ones (4000 rounds per Case): a store that reads and rewrites the whole block undoes one of those writes (lost update). Half of the Cases run under a rounding mode / FTZ / DAZ setting derived from the Case (the results must not depend on the floating-point environment).",
        "note": "Trusted: mmap/mprotect guard pages, host CPU fault behaviour (what this CPU does for masked instructions), compilers. Over-reads that stay inside the same page as addressed bytes (e.g. a full aligned load for aligned_load(p,3)) cannot fault and are not observable by this check; over-writes always are. The concurrent-writer operation has no false-alarm path but its detection depends on the interleaving of two threads, which the harness does not control; such failures are reported on first observation (no minimisation, no re-confirmation).",
    },
    "C03": {
        "technique": "model-based (stateful) property testing: rapidcheck-generated and enumerated command histories over four mask registers, compared with an array<bool,N> model through every observer after every command; histories shrink as one value",
        "level": "Generated-history search: 16 commands (& | ^ && || &= |= ^= ! insert<I> Mask(bool) Mask(array) =bool Mask(Vector(m)) set_bits(m)!=0 Mask(vector of special lanes)) on all 40 mask types in every configuration; after every command every register is read through primitive decode, extract<I> for all I, count/any/all/none, ==/!= against every register, Vector(mask), set_bits(mask). Enumerated: all 2^N patterns for N<=16 with insert<I>(m,false/true), every special lane value (-0.0, NaN, subnormal, single non-zero byte ...) in every lane for mask(vector). Half of the Cases run under a rounding mode / FTZ / DAZ setting derived from the Case (the results must not depend on the floating-point environment).",
        "note": "Trusted: the boolean-array model, host CPU, compilers. N=32/64 patterns are structured + random, not exhaustive. Non-canonical representations are counted and are violations only when an observer disagrees with the model.",
    },
    "C05": {
        "technique": "property-based testing: enumerated (all 8-bit pairs, lattice cross products, quotient-length classes; all 16-bit pairs in thorough) + rapidcheck (dividend, divisor) vectors with zero-divisor and MIN/-1 lanes injected into other lanes, __int128 division oracle + q*y+r==x relation, signal guard, per build configuration",
        "level": "Generated-input search over (dividend, divisor) lanes for div, /, %, /=, %= on every integer vector type in every configuration; zero divisors (and MIN/-1) are placed in rotating subsets of the other lanes of wide vectors, executed under a SIGFPE/SIGSEGV guard and not compared, so both 'no trap' and 'no disturbance of other lanes' are observed; quotient-length classes drive every early-exit stage of the shift-subtract emulations. Usage forms are generated as well: the same object on both sides of an operator (x op= x, x = x op x) and the reference returned by an assigning operator used as an lvalue ((x op= y) op= z), against the composed scalar reference. Half of the Cases run under a rounding mode / FTZ / DAZ setting derived from the Case (the results must not depend on the floating-point environment). Lane fills include blocks of equal lanes ({a,a,b,b}, one uniform half).",
        "note": "Trusted: __int128 division oracle, host CPU, compilers. Width-1 vectors never receive a zero divisor or MIN/-1. A trap while a MIN/-1 lane is present is tolerated (the property excepts that lane and says nothing about it trapping). Exhaustive only for 8-bit (quick) / 16-bit (thorough) pairs.",
    },
    "C07": {
        "technique": "property-based testing: enumerated (all 8-bit pairs, all 2^W masks for W<=16, lattice cross products; all 16-bit pairs in thorough) + rapidcheck operands and masks against exact integer / bit-pattern oracles and validity predicates, per build configuration",
        "level": "Generated-input search over masks x operand values for blend/keep/clear/min/max/minmax/clamp/abs/neg_abs/negate/average/midpoint/copysign, vector forms on all 40 types and the scalar overloads, in every configuration of the arm cover (quick) / lattice (thorough); integer oracles in __int128 (average = truncation of the exact sum halved, midpoint = a + trunc((b-a)/2)); float sign operations compared bit-for-bit incl. zeros, infinities, NaN payloads; float min/max/clamp by a validity predicate (bit-equal to an operand, numerically the right one, either zero accepted). The masks of blend / keep / clear / negate reach the operation through seven producers (primitive, comparison, std::array<bool>, insert<I> chains, Mask(vector), the type's sign test). Half of the Cases run under a rounding mode / FTZ / DAZ setting derived from the Case (the results must not depend on the floating-point environment).",
        "note": "Trusted: harness oracles, host CPU, compilers. Not compared: clamp lanes with lo == hi (lo/hi are ordered by the harness first), float min/max/clamp lanes with a NaN, and neg_abs of unsigned lanes >= 2^(bits-1) (AVEL reinterprets them as signed; the property does not fix the reading).",
    },
    "C06": {
        "technique": "property-based testing: exhaustive 8/16-bit (quick) and 32-bit (thorough) element values, structured 64-bit patterns + rapidcheck, naive bit-loop oracle, constant-operand vs run-time differential, per build configuration and scalar instruction set",
        "level": "Generated-input search over every element value (8/16-bit exhaustive; 32-bit exhaustive in thorough; 64-bit single/two-bit/mask patterns, neighbours, complements + random) for each of the 11 bit functions a type provides (SFINAE probe), vector lanes and scalar overloads, in every configuration of the arm cover plus the scalar ladders {none,X86,POPCNT,LZCNT,BMI,BMI2} x {g++,clang++} x {-O1,-O2}; oracle = naive bit loops; relations popcount(x)+popcount(~x)==bits, byteswap involution, countl_zero+bit_width==bits; constant-operand phase makes latent UB observable as a wrong value. Half of the Cases run under a rounding mode / FTZ / DAZ setting derived from the Case (the results must not depend on the floating-point environment).",
        "note": "Trusted: the bit-loop oracle, host CPU, compilers. Signed bit_floor/bit_ceil of negative lanes are documented undefined and not compared. A function a type does not provide is skipped here and is C19's business.",
    },
    "C04": {
        "technique": "property-based testing: enumerated values x every amount 0..bits / rotation amounts (all 8-bit values quick, all 16-bit thorough) + rapidcheck, bit-level shift/rotate oracle and metamorphic relations, per build configuration",
        "level": "Generated-input search over lane values x amounts for 25 operation forms (bitwise, shifts by scalar / per-lane vector / compile-time amount, rotations by scalar / per-lane / compile-time amount incl. negative and beyond-width amounts, scalar rotl/rotr) on every integer vector type and configuration; per-lane forms carry a different amount in every lane with all amounts visiting all lanes; oracle = shifts on the unsigned image with explicit full-width and sign-fill cases; relations rotl(rotr(x,s),s)==x, (x<<k)>>k==x&lowmask, x<<bits==0; UBSan trap mode on the width-1/scalar forms ('is defined' for 0..bits). Usage forms are generated as well: the same object on both sides of an operator (x op= x, x = x op x) and the reference returned by an assigning operator used as an lvalue ((x op= y) op= z), against the composed scalar reference. Half of the Cases run under a rounding mode / FTZ / DAZ setting derived from the Case (the results must not depend on the floating-point environment).",
        "note": "Trusted: harness oracle, host CPU, compilers. Exhaustive for 8-bit (quick) and 16-bit (thorough) values x all amounts; 32/64-bit values from the boundary lattice + random. Shift amounts outside 0..bits are documented as unspecified and are not generated for shifts.",
    },
    "C01": {
        "technique": "property-based testing: enumerated (all 8-bit pairs, lattice cross products; all 16-bit pairs in thorough) + rapidcheck operand pairs against modular-arithmetic oracle and metamorphic relations, per build configuration; UBSan trap mode turns undefined behaviour into a failing Case",
        "level": "Generated-input search over operand pairs x 11 operator forms x every integer vector type x every configuration of the #if-arm cover (quick) / macro lattice x compilers x standards (thorough); oracle = arithmetic modulo 2^bits on wider unsigned types plus relations ((a+b)-b==a, a*b==b*a, a*2^k==a<<k, -a==0-a); lane independence by heterogeneous neighbours and one-hot lanes; 'never undefined' by clang/gcc -fsanitize=undefined in trap mode on the width-1 code; cross-configuration output digests must agree. Usage forms are generated as well: the same object on both sides of an operator (x op= x, x = x op x) and the reference returned by an assigning operator used as an lvalue ((x op= y) op= z), against the composed scalar reference. Half of the Cases run under a rounding mode / FTZ / DAZ setting derived from the Case (the results must not depend on the floating-point environment).",
        "note": "Trusted: harness oracle (unsigned __int128 arithmetic), host CPU, compilers. Exhaustive only for 8-bit pairs (quick) and 16-bit pairs (thorough); 32/64-bit pairs are lattice cross products + random. AVEL has no scalar + - * overloads, so the 'scalar overloads agree' clause reduces to C++ unsigned arithmetic, which is the oracle.",
    },
    "C02": {
        "technique": "property-based testing: rapidcheck-generated + enumerated operand pairs against a bit-level comparison oracle, per build configuration",
        "level": "Generated-input search: all 8-bit pairs and the full boundary-lattice cross product (32/64-bit, floats incl. NaN/inf/zero/subnormal) in every lane position, plus rapidcheck random/derived pairs, for all six operators on every vector type of every configuration in the #if-arm cover (quick) or the full macro lattice x compilers x standards (thorough). Oracle decides truth from bit patterns without FP instructions; mask read through primitive, extract<I>, count/any/all/none and Vector(mask). Every comparison mask is also handed to keep / clear / blend with an all-ones and a patterned vector (whole lanes must move). Half of the Cases run under a rounding mode / FTZ / DAZ setting derived from the Case (the results must not depend on the floating-point environment).",
        "note": "Trusted: the harness's bit-level comparison oracle, the host CPU, g++/clang++. Absence is shown only for the enumerated finite sub-domains; 32/64-bit and float pairs are sampled (lattice cross product + random).",
    },
}
