"""Per-property registry: source file of the check object, files whose #if arms are counted,
tier parameters."""
import glob, os

VEC = "include/avel/impl/vectors/"
INT_VEC_FILES = [VEC + "Vec%s%s.hpp" % (w, s) for w in ("1x8", "1x16", "1x32", "1x64", "16x8", "8x16", "4x32", "2x64", "32x8", "16x16", "8x32", "4x64", "64x8", "32x16", "16x32", "8x64") for s in "ui"]
FLT_VEC_FILES = [VEC + "Vec%s.hpp" % w for w in ("1x32f", "1x64f", "4x32f", "2x64f", "8x32f", "4x64f", "16x32f", "8x64f")]
SCALAR_FILES = ["include/avel/impl/scalars/Scalar%s.hpp" % s for s in ("8u", "8i", "16u", "16i", "32u", "32i", "64u", "64i", "32f", "64f")]

PROPS = {
    "C02": {"id": "C02", "source": "c02.cpp", "files": INT_VEC_FILES + FLT_VEC_FILES, "min_configs": {"quick": 8, "thorough": 30}},
}

MANIFEST_TEXT = {
    "C02": {
        "technique": "property-based testing: rapidcheck-generated + enumerated operand pairs against a bit-level comparison oracle, per build configuration",
        "level": "Generated-input search: all 8-bit pairs and the full boundary-lattice cross product (32/64-bit, floats incl. NaN/inf/zero/subnormal) in every lane position, plus rapidcheck random/derived pairs, for all six operators on every vector type of every configuration in the #if-arm cover (quick) or the full macro lattice x compilers x standards (thorough). Oracle decides truth from bit patterns without FP instructions; mask read through primitive, extract<I>, count/any/all/none and Vector(mask).",
        "note": "Trusted: the harness's bit-level comparison oracle, the host CPU, g++/clang++. Absence is shown only for the enumerated finite sub-domains; 32/64-bit and float pairs are sampled (lattice cross product + random).",
    },
}
