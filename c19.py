#!/usr/bin/env python3
"""C19: every supported configuration compiles and exposes the documented type system.

Generated "inputs" are build configurations: (feature-macro set, explicit | AVEL_AUTO_DETECT, compiler, -std).
Enumerated lattice (quick + thorough) and Hypothesis-drawn random macro subsets (thorough; shrunk to a minimal failing
set).  For every point three generated programs:
  P1  includes <avel/Avel.hpp> and <avel/Aligned_allocator.hpp> only           (-fsyntax-only)
  P2  static_asserts on the documented type system                              (-fsyntax-only)
  P3  calls every operation of the fixed operation table for every provided type (compiled at -O0 and LINKED)
Oracle: exit status of compiler / linker.  Every distinct error (first error location or undefined symbol) is
reported separately, so one known hole does not hide another.
"""
import os, re, sys, json, time, hashlib, subprocess, fnmatch, itertools
from concurrent.futures import ThreadPoolExecutor

HERE = os.path.dirname(os.path.abspath(__file__))
import configs as C

ELEMS = [("std::uint8_t", 8, "8u"), ("std::int8_t", 8, "8i"), ("std::uint16_t", 16, "16u"), ("std::int16_t", 16, "16i"),
         ("std::uint32_t", 32, "32u"), ("std::int32_t", 32, "32i"), ("std::uint64_t", 64, "64u"), ("std::int64_t", 64, "64i"),
         ("float", 32, "32f"), ("double", 64, "64f")]


def doc_closure(macros):
    return C.closure(macros, C.DOC_IMPLIES) | C.closure(macros)


def expected_widths(macros, bits):
    """documented widths (docs + property statement): 128-bit with SSE2, 256-bit with AVX2, 512-bit 32/64-bit lanes with
    AVX-512F and 8/16-bit lanes with AVX-512BW; width 1 always"""
    cl = doc_closure(macros)
    w = [1]
    if "SSE2" in cl:
        w.append(128 // bits)
    if "AVX2" in cl:
        w.append(256 // bits)
    if ("AVX512F" in cl and bits >= 32) or ("AVX512BW" in cl and bits <= 16):
        w.append(512 // bits)
    return w


P1 = "#include <avel/Avel.hpp>\n#include <avel/Aligned_allocator.hpp>\nint main() { return 0; }\n"


TU2 = "#include <avel/Avel.hpp>\n#include <avel/Aligned_allocator.hpp>\n#include <avel/Cache.hpp>\nint vp_second_translation_unit() { return int(sizeof(avel::vec1x8u)); }\n"

_PREDEF = {}
_CC2AVEL = {"__SSE2__": "SSE2", "__SSE3__": "SSE3", "__SSSE3__": "SSSE3", "__SSE4_1__": "SSE4_1", "__SSE4_2__": "SSE4_2", "__AVX__": "AVX", "__AVX2__": "AVX2", "__FMA__": "FMA",
            "__AVX512F__": "AVX512F", "__AVX512CD__": "AVX512CD", "__AVX512VL__": "AVX512VL", "__AVX512DQ__": "AVX512DQ", "__AVX512BW__": "AVX512BW", "__AVX512VPOPCNTDQ__": "AVX512VPOPCNTDQ",
            "__AVX512VBMI__": "AVX512VBMI", "__AVX512VBMI2__": "AVX512VBMI2", "__AVX512BITALG__": "AVX512BITALG", "__GFNI__": "GFNI", "__POPCNT__": "POPCNT", "__LZCNT__": "LZCNT", "__BMI__": "BMI", "__BMI2__": "BMI2"}


def effective(pt):
    """macro set that decides the expected type system: the explicit macros, or, under AVEL_AUTO_DETECT, exactly the feature macros the
    compiler itself defines for the flags of this point (compilers imply some extensions from others, e.g. -mavx512vbmi turns on AVX-512BW;
    x86-64 always has SSE2) - i.e. auto-detection must give the same types as naming those macros explicitly"""
    if not pt.auto:
        return list(pt.macros)
    flags = tuple(sorted({C.FLAG[m] for m in doc_closure(pt.macros) if m in C.FLAG}))
    k = (pt.cxx, flags)
    if k not in _PREDEF:
        r = subprocess.run([pt.cxx, "-dM", "-E", "-x", "c++", "/dev/null"] + list(flags), stdout=subprocess.PIPE, stderr=subprocess.PIPE, text=True)
        _PREDEF[k] = sorted({v for kk, v in _CC2AVEL.items() if re.search(r"#define %s\b" % kk, r.stdout)})
    return list(_PREDEF[k])


def gen_p2(macros):
    L = ["#include <avel/Avel.hpp>", "#include <avel/Aligned_allocator.hpp>", "#include <type_traits>",
         "template<class T, class = void> struct vp_complete : std::false_type {};",
         "template<class T> struct vp_complete<T, decltype(void(sizeof(T)))> : std::true_type {};"]
    for ty, bits, sfx in ELEMS:
        ws = expected_widths(macros, bits)
        for n in sorted({1, 2, 3, 4, 8, 16, 32, 64, 128, 128 // bits, 256 // bits, 512 // bits, 1024 // bits}):
            yes = "true" if n in ws else "false"
            L.append('static_assert(vp_complete<avel::Vector<%s, %d>>::value == %s, "C19: Vector<%s,%d> must %sbe provided");' % (ty, n, yes, ty, n, "" if n in ws else "not "))
            L.append('static_assert(vp_complete<avel::Vector_mask<%s, %d>>::value == %s, "C19: Vector_mask<%s,%d> must %sbe provided");' % (ty, n, yes, ty, n, "" if n in ws else "not "))
            if n in ws:
                V = "avel::Vector<%s, %d>" % (ty, n)
                L.append('static_assert(sizeof(%s) == %d * sizeof(%s), "C19: sizeof(Vector<%s,%d>)");' % (V, n, ty, ty, n))
                L.append('static_assert(std::is_trivially_copyable<%s>::value, "C19: Vector<%s,%d> trivially copyable");' % (V, ty, n))
                L.append('static_assert(std::is_trivial<avel::Vector_mask<%s, %d>>::value, "C19: Vector_mask<%s,%d> trivial");' % (ty, n, ty, n))
                L.append('static_assert(%s::width == %d && avel::Vector_mask<%s, %d>::width == %d, "C19: width constant of Vector<%s,%d>");' % (V, n, ty, n, n, ty, n))
                L.append('static_assert(std::is_same<avel::vec%dx%s, %s>::value && std::is_same<avel::mask%dx%s, avel::Vector_mask<%s, %d>>::value, "C19: alias vec%dx%s");' % (n, sfx, V, n, sfx, ty, n, n, sfx))
                L.append('static_assert(std::is_same<avel::arr%dx%s, std::array<%s, %d>>::value, "C19: alias arr%dx%s");' % (n, sfx, ty, n, n, sfx))
                # the documented member aliases: rebind_width<M> is Vector<scalar, M>, rebind_type<U> is Vector<U, width>, scalar / mask / primitive name the right types
                for m2 in sorted(set(ws) | {n * 2, 3}):
                    L.append('static_assert(std::is_same<%s::rebind_width<%d>, avel::Vector<%s, %d>>::value, "C19: Vector<%s,%d>::rebind_width<%d>");' % (V, m2, ty, m2, ty, n, m2))
                for ty2, bits2, sfx2 in ELEMS:
                    if bits2 == bits or (ty2, bits2) in (("float", 32), ("std::uint8_t", 8)):
                        L.append('static_assert(std::is_same<%s::rebind_type<%s>, avel::Vector<%s, %d>>::value, "C19: Vector<%s,%d>::rebind_type<%s>");' % (V, ty2, ty2, n, ty, n, ty2))
                L.append('static_assert(std::is_same<%s::scalar, %s>::value && std::is_same<%s::mask, avel::Vector_mask<%s, %d>>::value, "C19: member aliases scalar / mask of Vector<%s,%d>");' % (V, ty, V, ty, n, ty, n))
        mx = max(ws)
        L.append('static_assert(vp_complete<avel::vecMx%s>::value && vp_complete<avel::maskMx%s>::value, "C19: vecMx%s names a provided type");' % (sfx, sfx, sfx))
        L.append('static_assert(vp_complete<avel::vecNx%s>::value && vp_complete<avel::maskNx%s>::value, "C19: vecNx%s names a provided type");' % (sfx, sfx, sfx))
        L.append('static_assert(avel::max_width_%s == %d, "C19: max_width_%s is the widest provided width");' % (sfx, mx, sfx))
        L.append('static_assert(avel::natural_width_%s <= avel::max_width_%s && avel::natural_width_%s >= 1, "C19: natural width of %s");' % (sfx, sfx, sfx, sfx))
        L.append('static_assert(std::is_same<avel::vecMx%s, avel::Vector<%s, avel::max_width_%s>>::value && std::is_same<avel::vecNx%s, avel::Vector<%s, avel::natural_width_%s>>::value, "C19: vecMx/vecNx aliases of %s");' % (sfx, ty, sfx, sfx, ty, sfx, sfx))
    L.append("int main() { return 0; }")
    return "\n".join(L) + "\n"


# ---- fixed operation table (what the pinned width-1 types offer), instantiated for every provided type ----
P3_HEAD = r'''
#include <avel/Avel.hpp>
#include <avel/Aligned_allocator.hpp>
#include <vector>
template<class T> void vp_use(const T& x) { asm volatile("" :: "m"(x)); }
template<class M> void use_mask() {
    std::array<bool, M::width> arr{};
    M a{true}, b{arr}, c{};
    c = false; c = a & b; c = a | b; c = a ^ b; c = !a; c = a && b; c = a || b; c &= a; c |= b; c ^= a;
    vp_use(a == b); vp_use(a != b); vp_use(avel::count(c)); vp_use(avel::any(c)); vp_use(avel::all(c)); vp_use(avel::none(c));
    vp_use(avel::extract<0>(c)); c = avel::insert<0>(c, true); c = avel::insert<M::width - 1>(c, false); vp_use(avel::decay(c)); vp_use(c);
}
template<class V> void use_common() {
    typedef typename V::scalar T; typedef typename V::mask M;
    use_mask<M>();
    alignas(64) T buf[2 * V::width + 8] = {};
    std::array<T, V::width> arr{};
    V a{T(3)}, b{arr}, c{}; M m{true};
    c = T(1); c = V{m};
    m = (a == b); m = (a != b); m = (a < b); m = (a <= b); m = (a > b); m = (a >= b);
    c = a + b; c = a - b; c = a * b; c += a; c -= b; c *= a; ++c; c++; --c; c--; c = +a; vp_use(-a);
    vp_use(avel::extract<0>(a)); c = avel::insert<0>(a, T(1)); c = avel::insert<V::width - 1>(a, T(1));
    vp_use(avel::count(a)); vp_use(avel::any(a)); vp_use(avel::all(a)); vp_use(avel::none(a)); vp_use(M(a));
    c = avel::keep(m, a); c = avel::clear(m, a); c = avel::blend(m, a, b); c = avel::byteswap(a);
    c = avel::max(a, b); c = avel::min(a, b); vp_use(avel::minmax(a, b)); c = avel::clamp(a, a, b);
    c = avel::load<V>(buf); c = avel::load<V>(buf, 1u); c = avel::load<V, 1>(buf); c = avel::aligned_load<V>(buf); c = avel::aligned_load<V>(buf, 1u); c = avel::aligned_load<V, 1>(buf);
    avel::store(buf, a); avel::store(buf, a, 1u); avel::store<1>(buf, a); avel::aligned_store(buf, a); avel::aligned_store(buf, a, 1u); avel::aligned_store<1>(buf, a);
    vp_use(avel::to_array(a)); vp_use(avel::decay(a)); vp_use(avel::convert<V>(a)); vp_use(c); vp_use(buf);
    // const operands on either side of every operator and function; the references the assigning operators return
    const V ca = a, cb = b; const M cm = m, cn = !m;
    m = (ca == cb); m = (ca != cb); m = (ca < cb); m = (ca <= cb); m = (ca > cb); m = (ca >= cb); m = cm & cn; m = cm | cn; m = cm ^ cn; m = !cm; m = cm && cn; m = cm || cn;
    vp_use(cm == cn); vp_use(cm != cn); vp_use(avel::count(cm)); vp_use(avel::any(cm)); vp_use(avel::all(cm)); vp_use(avel::none(cm)); vp_use(avel::extract<0>(cm)); m = avel::insert<0>(cm, true);
    c = ca + cb; c = ca - cb; c = ca * cb; c = +ca; vp_use(-ca); vp_use(M(ca)); vp_use(V(cm)); vp_use(avel::extract<0>(ca)); c = avel::insert<0>(ca, T(1));
    c = avel::keep(cm, ca); c = avel::clear(cm, ca); c = avel::blend(cm, ca, cb); c = avel::max(ca, cb); c = avel::min(ca, cb); c = avel::clamp(ca, ca, cb); vp_use(avel::to_array(ca));
    avel::store(buf, ca); avel::store(buf, ca, 1u); avel::aligned_store(buf, ca);
    { V& r1 = (c += ca); V& r2 = (c -= ca); V& r3 = (c *= ca); V& r4 = ++c; V& r5 = --c; V& r6 = (c = T(1)); V& r7 = (c = ca); vp_use(&r1); vp_use(&r2); vp_use(&r3); vp_use(&r4); vp_use(&r5); vp_use(&r6); vp_use(&r7); }
    { M x{true}; M& q1 = (x &= cm); M& q2 = (x |= cm); M& q3 = (x ^= cm); M& q4 = (x = false); M& q5 = (x = cm); vp_use(&q1); vp_use(&q2); vp_use(&q3); vp_use(&q4); vp_use(&q5); }
}
template<class V> void use_gather_scatter(std::true_type) {
    typedef typename V::scalar T; typedef avel::Vector<typename avel::to_index_type<T>::type, V::width> IV;
    T buf[V::width + 4] = {}; IV idx{}; V a{};
    a = avel::gather<V>(buf, idx); a = avel::gather<V>(buf, idx, 1u); a = avel::gather<V, 1>(buf, idx);
    avel::scatter(buf, a, idx); avel::scatter(buf, a, idx, 1u); avel::scatter<1>(buf, a, idx); vp_use(a); vp_use(buf);
}
template<class V> void use_gather_scatter(std::false_type) {}
template<class V> void use_int() {
    typedef typename V::scalar T; typedef typename V::mask M;
    use_common<V>();
    use_gather_scatter<V>(std::integral_constant<bool, sizeof(T) >= 4>());
    V a{T(3)}, b{T(5)}, c{}; M m{true};
    c = a / b; c = a % b; c /= b; c %= b; vp_use(avel::div(a, b));
    c = ~a; c = a & b; c = a | b; c = a ^ b; c &= a; c |= b; c ^= a;
    c = a << 1LL; c = a >> 1LL; c = a << b; c = a >> b; c <<= 1LL; c >>= 1LL; c <<= b; c >>= b;
    c = avel::bit_shift_left<1>(a); c = avel::bit_shift_right<1>(a); c = avel::rotl<1>(a); c = avel::rotr<1>(a);
    c = avel::rotl(a, 1LL); c = avel::rotr(a, 1LL); c = avel::rotl(a, b); c = avel::rotr(a, b);
    c = avel::set_bits(m); c = avel::average(a, b); c = avel::midpoint(a, b);
    { const V ca = a, cb = b; c = ca / cb; c = ca % cb; c = ~ca; c = ca & cb; c = ca | cb; c = ca ^ cb; c = ca << 1LL; c = ca >> 1LL; c = ca << cb; c = ca >> cb; vp_use(avel::div(ca, cb));
      c = avel::rotl(ca, cb); c = avel::rotr(ca, 1LL); c = avel::popcount(ca); c = avel::average(ca, cb);
      V& r1 = (c /= cb); V& r2 = (c %= cb); V& r3 = (c &= ca); V& r4 = (c |= ca); V& r5 = (c ^= ca); V& r6 = (c <<= 1LL); V& r7 = (c >>= 1LL); V& r8 = (c <<= cb); V& r9 = (c >>= cb);
      vp_use(&r1); vp_use(&r2); vp_use(&r3); vp_use(&r4); vp_use(&r5); vp_use(&r6); vp_use(&r7); vp_use(&r8); vp_use(&r9); }
    c = avel::popcount(a); c = avel::countl_zero(a); c = avel::countl_one(a); c = avel::countr_zero(a); c = avel::countr_one(a); m = avel::has_single_bit(a);
    typedef avel::Vector<typename std::conditional<std::is_signed<T>::value, typename std::make_unsigned<T>::type, typename std::make_signed<T>::type>::type, V::width> OV;
    OV o{a}; vp_use(avel::convert<OV>(a)); V back{o}; vp_use(back); typename OV::mask om{m}; vp_use(om); vp_use(avel::neg_abs(a));
    avel::Denominator<V> den{b}; avel::Denominator<V> den2{avel::Denominator<T>(T(3))};
    vp_use(div(a, den)); c = a / den; c = a % den2; c /= den; c %= den; vp_use(den.value()); vp_use(c);
}
template<class V> void use_unsigned() { use_int<V>(); V a{}; vp_use(avel::bit_width(a)); vp_use(avel::bit_floor(a)); vp_use(avel::bit_ceil(a)); }
template<class V> void use_signed() { use_int<V>(); V a{}; typename V::mask m{}; vp_use(avel::abs(a)); vp_use(avel::negate(m, a)); vp_use(avel::countl_sign(a)); }
template<class V> void use_float() {
    typedef typename V::scalar T; typedef typename V::mask M; typedef avel::Vector<typename avel::to_index_type<T>::type, V::width> IV;
    use_common<V>();
    use_gather_scatter<V>(std::true_type());
    V a{T(3)}, b{T(5)}, c{}; M m{true}; IV e{};
    c = a / b; c /= b; c = avel::negate(m, a); c = avel::abs(a); c = avel::neg_abs(a);
    { const V ca = a, cb = b; const M cm = m; c = ca / cb; V& r1 = (c /= cb); vp_use(&r1); c = avel::negate(cm, ca); c = avel::abs(ca); c = avel::fmax(ca, cb); c = avel::sqrt(ca); c = avel::floor(ca);
      m = avel::isnan(ca); m = avel::signbit(ca); m = avel::isless(ca, cb); c = avel::copysign(ca, cb); c = avel::ldexp(ca, e); vp_use(avel::ilogb(ca)); }
    c = avel::fmax(a, b); c = avel::fmin(a, b); c = avel::fdim(a, b); c = avel::frac(a); c = avel::sqrt(a);
    c = avel::ceil(a); c = avel::floor(a); c = avel::trunc(a); c = avel::round(a); c = avel::nearbyint(a); c = avel::rint(a);
    c = avel::frexp(a, &e); c = avel::ldexp(a, e); c = avel::scalbn(a, e); e = avel::ilogb(a); c = avel::logb(a); c = avel::copysign(a, b);
    e = avel::fpclassify(a); m = avel::isfinite(a); m = avel::isinf(a); m = avel::isnan(a); m = avel::isnormal(a); m = avel::signbit(a);
    m = avel::isgreater(a, b); m = avel::isgreaterequal(a, b); m = avel::isless(a, b); m = avel::islessequal(a, b); m = avel::islessgreater(a, b); m = avel::isunordered(a, b);
    VP_FMOD
    vp_use(c); vp_use(e); vp_use(m);
}
template<class T, std::size_t A> void use_alloc() {
    avel::Aligned_allocator<T, A> al; T* p = al.allocate(3); vp_use(p); al.deallocate(p, 3);
    std::vector<T, avel::Aligned_allocator<T, A>> v(5); v.push_back(T()); vp_use(v.data());
}
int main() {
    use_alloc<char, 1>(); use_alloc<float, 64>(); use_alloc<double, 4096>();
    avel::prefetch_read<avel::L1_CACHE>(static_cast<const void*>("x"), 1); avel::prefetch_write<avel::L2_CACHE>(static_cast<const void*>("x"), 1);
'''


P3F_HEAD = '''
#include <avel/Avel.hpp>
template<class T> void vp_use(const T& x) { asm volatile("" :: "m"(x)); }
template<class V> void use_fmod() { typedef typename V::scalar T; V a{T(7)}, b{T(2)}, c{}; c = avel::fmod(a, b); c %= b; vp_use(c); }
int main() {
'''


def gen_p3f(macros):
    """the part of the operation table that is a known finding on the pinned tree (fmod / operator%= of the SIMD float vectors are declared, never defined): kept in
    its own program so that the main program P3 must link cleanly"""
    body = [P3F_HEAD]
    for ty, bits, sfx in ELEMS:
        if sfx.endswith("f"):
            for n in expected_widths(macros, bits):
                body.append("    use_fmod<avel::Vector<%s, %d>>();" % (ty, n))
    body.append("    return 0;\n}\n")
    return "\n".join(body)


def gen_p3(macros, with_fmod=False):
    body = [P3_HEAD.replace("VP_FMOD", "c = avel::fmod(a, b); c %= b;" if with_fmod else "")]
    for ty, bits, sfx in ELEMS:
        for n in expected_widths(macros, bits):
            fn = "use_float" if sfx.endswith("f") else ("use_unsigned" if sfx.endswith("u") else "use_signed")
            body.append("    %s<avel::Vector<%s, %d>>();" % (fn, ty, n))
    body.append("    return 0;\n}\n")
    return "\n".join(body)


def err_keys(stderr):
    """distinct error keys of one failed compile/link"""
    keys = []
    for ln in stderr.split("\n"):
        m = re.search(r"undefined reference to `([^']+)'", ln)
        mm = re.search(r"multiple definition of `([^']+)'", ln)
        if m:
            sym = re.sub(r"\(.*", "", m.group(1))
            k = "undefined_reference:" + sym
        elif mm:
            k = "multiple_definition:" + re.sub(r"\(.*", "", mm.group(1))
        else:
            m = re.search(r"error: (?:static assertion failed|static_assert failed)(.*)", ln)
            if m:
                msg = m.group(1)
                q = re.search(r"C19: [^\"]+", msg)
                msg = q.group(0) if q else re.sub(r"^[:\s]*(due to requirement '[^']*')?\s*", "", msg).strip(' "')
                loc = re.search(r"([\w.-]+\.hpp):(\d+)", ln)
                k = "static_assert:" + (("%s:%s:" % (loc.group(1), loc.group(2))) if loc and not q else "") + msg[:120]
            else:
                m = re.search(r"([\w./-]+\.hpp):(\d+):\d+: (?:fatal )?error: (.*)", ln)
                if not m:
                    m2 = re.search(r"([\w./-]+\.cpp):(\d+):\d+: (?:fatal )?error: (.*)", ln)
                    if not m2:
                        continue
                    k = "error:program:" + re.sub(r"[‘’'`]", "'", m2.group(3))[:140]
                else:
                    k = "error:%s:%s:%s" % (os.path.basename(m.group(1)), m.group(2), re.sub(r"[‘’'`]", "'", m.group(3))[:100])
        if k not in keys:
            keys.append(k)
        if len(keys) >= 6:
            break
    if not keys and stderr.strip():
        keys.append("error:unparsed:" + stderr.strip().split("\n")[0][:120])
    return keys


class Point:
    def __init__(self, macros, auto=False, cxx="g++", std="c++11"):
        self.macros = tuple(sorted(set(macros), key=lambda m: C.X86_MACROS.index(m)))
        self.auto, self.cxx, self.std = auto, cxx, std

    @property
    def name(self):
        return "%s-%s-%s-%s" % ({"g++": "gcc", "clang++": "clang"}[self.cxx], self.std.replace("c++", "cxx"), "auto" if self.auto else "explicit", "+".join(self.macros) or "none")

    def cmd(self, extra):
        flags = sorted({C.FLAG[m] for m in doc_closure(self.macros) if m in C.FLAG})
        defs = ["-DAVEL_AUTO_DETECT"] if self.auto else ["-DAVEL_" + m for m in self.macros]
        return [self.cxx, "-std=" + self.std, "-w"] + defs + flags + ["-I", os.path.join(RUN.REPO, "include")] + extra

    def to_json(self):
        return {"macros": list(self.macros), "auto": self.auto, "cxx": self.cxx, "std": self.std, "name": self.name}


RUN = None
_ctr = itertools.count()


def compile_point(pt, prog, text, link):
    d = os.path.join(RUN.BUILD, "c19")
    os.makedirs(d, exist_ok=True)
    h = hashlib.sha256((pt.name + prog + text).encode()).hexdigest()[:16]
    src = os.path.join(d, "%s-%s-%d-%d.cpp" % (prog, h, os.getpid(), next(_ctr)))
    with open(src, "w") as f:
        f.write(text)
    src2 = None
    if link:
        exe = src[:-4] + ".bin"
        srcs = [src]
        if prog == "P3":
            # a header-only library is included from more than one translation unit: every non-template function and every explicit
            # specialisation must be inline, or the second unit makes the link fail with a multiple definition
            src2 = src[:-4] + "-tu2.cpp"
            with open(src2, "w") as f:
                f.write(TU2)
            srcs.append(src2)
        cmd = pt.cmd(["-O0"] + srcs + ["-o", exe])
    else:
        cmd = pt.cmd(["-fsyntax-only", src])
    r = subprocess.run(cmd, stdout=subprocess.PIPE, stderr=subprocess.PIPE, text=True)
    if link and os.path.exists(src[:-4] + ".bin"):
        os.remove(src[:-4] + ".bin")
    os.remove(src)
    if src2:
        os.remove(src2)
    return r.returncode, r.stderr


def lattice_points(tier):
    pts = []
    singles = [[m] for m in C.X86_MACROS]
    chain = [["SSE2"], ["SSE3"], ["SSSE3"], ["SSE4_1"], ["SSE4_2"], ["AVX"], ["AVX2"], ["FMA"], ["AVX2", "FMA"]]
    subs = ["AVX512CD", "AVX512VL", "AVX512DQ", "AVX512BW", "AVX512VPOPCNTDQ", "AVX512VBMI", "AVX512VBMI2", "AVX512BITALG", "GFNI"]
    combos = [[]] + singles + chain + [["AVX512F", s] for s in subs] + [["AVX512VL", s] for s in subs if s != "AVX512VL"] + [["AVX512BW", s] for s in subs if s != "AVX512BW"] + \
        [["AVX512VL", "AVX512BW", s] for s in subs if s not in ("AVX512VL", "AVX512BW")] + [list(C.ALL512), list(C.EVERYTHING)]
    seen, uniq = set(), []
    for m in combos:
        k = tuple(sorted(m))
        if k not in seen:
            seen.add(k); uniq.append(m)
    if tier == "quick":
        # P1/P2 over every single macro, the chain, F+each sub-extension, the full sets; compilers/standards rotated over the list
        stds = ["c++11", "c++14", "c++17", "c++20"]
        for i, m in enumerate(uniq[:len(singles) + len(chain) + 1 + len(subs)] + [list(C.ALL512), list(C.EVERYTHING), ["AVX512VL", "AVX512BW"], ["AVX512VL", "AVX512DQ"]]):
            pts.append(Point(m, False, "g++" if i % 2 == 0 else "clang++", stds[i % 4]))
            if i % 3 == 0:
                pts.append(Point(m, True, "clang++" if i % 2 == 0 else "g++", stds[(i + 1) % 4]))
        for std in stds:
            for cxx in ("g++", "clang++"):
                pts.append(Point([], False, cxx, std))
        pts.append(Point([], False, "g++", "c++17")); pts.append(Point(["SSE2"], False, "clang++", "c++17"))
    else:
        for m in uniq:
            for auto in (False, True):
                for cxx in ("g++", "clang++"):
                    for std in ("c++11", "c++14", "c++17", "c++20"):
                        pts.append(Point(m, auto, cxx, std))
    seen, res = set(), []
    for p in pts:
        if p.name not in seen:
            seen.add(p.name); res.append(p)
    return res


def p3_points(tier, inc):
    if tier == "quick":
        sets = [[], ["SSE2"], ["SSE4_1", "BMI"], ["AVX2", "FMA", "LZCNT", "BMI2"], ["AVX512F"], ["AVX512VL", "AVX512BW"], ["AVX512VL", "AVX512DQ", "AVX512CD"], list(C.EVERYTHING)]
        pts = [Point(m, False, "g++", "c++11") for m in sets]
        pts += [Point([], False, "clang++", "c++17"), Point(["AVX2"], True, "clang++", "c++20"), Point(list(C.EVERYTHING), False, "clang++", "c++14"), Point(["SSE2"], False, "g++", "c++17")]
        # every #if arm of the current tree is compiled by some P3 build: the greedy arm cover (recomputed from the tree) and the arms only another compiler / standard selects
        root = os.path.join(inc, "avel")
        qs = C.quick_macro_sets(root)
        pts += [Point(m, False, "g++", "c++11") for m in qs]
        # ... and in the smallest builds that select it (a guard that asks for less than the arm's body needs fails to compile exactly there)
        pts += [Point(m, False, "g++", "c++11") for m in C.minimal_selecting_sets(root) if "X86" not in m]
        pts += [Point(m, False, cxx, std) for m, cxx, std in C.axis_cover(root, qs)]
        seen, res = set(), []
        for p in pts:
            if p.name not in seen:
                seen.add(p.name); res.append(p)
        return res
    pts = [Point(m, False, "g++", "c++11") for m in C.lattice_macro_sets()]
    for m in ([], ["SSE2"], ["SSE4_1"], ["AVX2"], ["AVX512VL", "AVX512BW", "AVX512DQ", "AVX512CD"], list(C.EVERYTHING)):
        for cxx in ("g++", "clang++"):
            for std in ("c++14", "c++17", "c++20"):
                pts.append(Point(m, cxx == "clang++", cxx, std))
    return pts


def run(pid, tier, runmod):
    global RUN
    RUN = runmod
    t0 = time.time()
    known = runmod.load_known(pid)
    jobs = []     # (point, program name, text, link)
    for pt in lattice_points(tier):
        jobs.append((pt, "P1", P1, False))
        jobs.append((pt, "P2", gen_p2(effective(pt)), False))
    for pt in p3_points(tier, runmod.INC):
        jobs.append((pt, "P3", gen_p3(effective(pt)), True))
        jobs.append((pt, "P3F", gen_p3f(effective(pt)), True))
    # committed regression points (minimal failing configurations of fixed findings)
    nreg = 0
    for f in sorted(runmod.glob.glob(os.path.join(HERE, "regressions", pid, "*.json"))):
        d = json.load(open(f))
        pt = Point(d["point"]["macros"], d["point"]["auto"], d["point"]["cxx"], d["point"]["std"])
        prog = d["program"]
        jobs.append((pt, prog, P1 if prog == "P1" else gen_p2(effective(pt)) if prog == "P2" else (gen_p3(effective(pt)) if prog == "P3" else gen_p3f(effective(pt))), prog in ("P3", "P3F")))
        nreg += 1
    results = []
    with ThreadPoolExecutor(max_workers=runmod.JOBS) as ex:
        results = list(ex.map(lambda j: (j, compile_point(j[0], j[1], j[2], j[3])), jobs))
    hyp = {"draws": 0}
    if tier != "quick":
        results += hypothesis_phase(runmod, hyp)
    return finish(pid, tier, runmod, results, known, nreg, t0, hyp)


def hypothesis_phase(runmod, stats):
    """random subsets of the documented x86 macros x compiler x standard, shrunk to a minimal failing set"""
    try:
        import hypothesis  # noqa: F401
    except ImportError:
        # Hypothesis lives in the tooling virtualenv (python3-vt); same interpreter version, so its site-packages can be used directly
        import glob as _g
        for sp in _g.glob("/opt/veriftools/pyvenv/lib/python3*/site-packages"):
            if sp not in sys.path:
                sys.path.append(sp)
    from hypothesis import given, settings, seed, strategies as st, HealthCheck
    found = []
    seen_keys = set()

    @seed(runmod.SEED)
    @settings(max_examples=int(os.environ.get("VERIF_C19_DRAWS", "120")), database=None, deadline=None, report_multiple_bugs=False, suppress_health_check=list(HealthCheck), derandomize=False)
    @given(st.sets(st.sampled_from(C.X86_MACROS), max_size=8), st.booleans(), st.sampled_from(["g++", "clang++"]), st.sampled_from(["c++11", "c++14", "c++17", "c++20"]))
    def prop(ms, auto, cxx, std):
        stats["draws"] += 1
        pt = Point(sorted(ms), auto, cxx, std)
        for prog, text in (("P1", P1), ("P2", gen_p2(effective(pt)))):
            rc, err = compile_point(pt, prog, text, False)
            job = (pt, prog, text, False)
            if rc != 0:
                keys = err_keys(err)
                new = [k for k in keys if not any(known_match(kf, pt, prog, k) for kf in runmod.load_known("C19")) and k not in seen_keys]
                if new:
                    found.append((job, (rc, err)))
                    raise AssertionError("new failure %s" % new)
            found_ok.append((job, (rc, err)))
    found_ok = []
    for attempt in range(6):   # continue the search behind each new finding
        try:
            prop()
            break
        except AssertionError:
            (job, (rc, err)) = found[-1]
            for k in err_keys(err):
                seen_keys.add(k)
    return found_ok + found


def known_match(k, pt, prog, key):
    # configs expression is evaluated against the documented closure + pseudo names
    expr = k["configs"]
    ok = True
    if expr not in ("*", ""):
        cl = doc_closure(pt.macros)
        names = {"GCC": pt.cxx == "g++", "CLANG": pt.cxx != "g++", "AUTO": pt.auto, "CXX11": pt.std == "c++11", "CXX14": pt.std == "c++14", "CXX17": pt.std == "c++17", "CXX20": pt.std == "c++20",
                 "NOMACRO": len(pt.macros) == 0, "EXPLICIT_PREFETCH": "PREFETCH" in pt.macros}
        e = re.sub(r"[A-Za-z_][A-Za-z0-9_]*", lambda m: str(names[m.group(0)] if m.group(0) in names else (m.group(0) in cl)), expr)
        e = e.replace("&", " and ").replace("|", " or ").replace("!", " not ")
        ok = bool(eval(e, {"__builtins__": {}}, {}))
    return ok and fnmatch.fnmatch(prog + "|" + key, k["sig"])


def finish(pid, tier, runmod, results, known, nreg, t0, hyp):
    viol, samples, known_hits = [], [], {}
    evals, nontriv = 0, set()
    per_prog = {"P1": 0, "P2": 0, "P3": 0, "P3F": 0}
    classes = {"simd_macro_defined": 0, "non_default_standard": 0, "auto_detect": 0, "clang": 0, "no_macro": 0, "linked_program": 0}
    for (pt, prog, text, link), (rc, err) in results:
        evals += 1
        per_prog[prog] += 1
        simd = any(m in doc_closure(pt.macros) for m in ("SSE2",))
        if simd: classes["simd_macro_defined"] += 1
        if pt.std != "c++11": classes["non_default_standard"] += 1
        if pt.auto: classes["auto_detect"] += 1
        if pt.cxx != "g++": classes["clang"] += 1
        if not pt.macros: classes["no_macro"] += 1
        if link: classes["linked_program"] += 1
        if simd or pt.std != "c++11":
            nontriv.add(pt.name + "/" + prog)
        if len(samples) < 10 and (evals % 17 == 1):
            samples.append({"point": pt.to_json(), "program": prog, "command": " ".join(pt.cmd(["-fsyntax-only" if not link else "-O0", "<program>"])), "exit": rc})
        if rc == 0:
            continue
        for key in err_keys(err):
            hit = None
            for k in known:
                if known_match(k, pt, prog, key):
                    hit = k; break
            if hit:
                e = known_hits.setdefault(hit["sig"] + "@" + hit["configs"], {"count": 0, "points": [], "key": key})
                e["count"] += 1
                if len(e["points"]) < 5: e["points"].append(pt.name)
                continue
            viol.append((pt, prog, key, err))
    for k in known:
        h = known_hits.get(k["sig"] + "@" + k["configs"], {"count": 0, "points": []})
        print("KNOWN-FINDING: property=%s %s [hits=%d]" % (pid, k["text"], h["count"]))
    seen = {}
    nviol = 0
    os.makedirs(os.path.join(HERE, "replays", pid), exist_ok=True)
    for pt, prog, key, err in viol:
        sk = (prog, key)
        if sk in seen:
            seen[sk].append(pt.name); continue
        seen[sk] = [pt.name]
        nviol += 1
        h = hashlib.sha256((pt.name + prog + key).encode()).hexdigest()[:10]
        path = os.path.join(HERE, "replays", pid, "%s-%s-%s.json" % (prog, pt.name[:80], h))
        json.dump({"property": pid, "point": pt.to_json(), "program": prog, "key": key, "stderr": err[-3000:], "seed": runmod.SEED}, open(path, "w"), indent=1)
        print("VIOLATION property=%s replay=%s" % (pid, os.path.relpath(path, HERE)))
        print("   program=%s point=%s\n   %s" % (prog, pt.name, key))
    for (prog, key), pts in seen.items():
        if len(pts) > 1:
            print("   (%s | %s also in %d more points, e.g. %s)" % (prog, key[:80], len(pts) - 1, pts[1:4]))
    cov = {
        "evaluations": evals, "distinct_nontrivial": len(nontriv),
        "rule": "a case is one (feature-macro set, explicit macros | AVEL_AUTO_DETECT, compiler, -std) point and one generated program (P1 include-only, P2 static_asserts on the documented type system, "
                "P3 generic program calling the fixed operation table for every provided type, compiled and linked); non-trivial = the point defines at least one SIMD macro or uses a non-default standard; "
                "distinct = distinct (point, program)",
        "samples": samples, "exhaustive": True,
        "exhaustive_domains": ["the enumerated lattice of this tier: each single macro, each chain prefix, AVX-512F + each sub-extension" + (", with and without VL/BW, x {explicit, AUTO_DETECT} x {g++, clang++} x {c++11,14,17,20}" if tier != "quick" else " (compilers and standards rotated over the list), the four standards x two compilers for the no-macro build")],
        "programs_per_kind": per_prog, "classes": classes, "hypothesis_draws": hyp.get("draws", 0), "regression_points": nreg,
        "known_findings_hit": known_hits, "violation_list": [{"program": p, "key": k, "points": v[:6]} for (p, k), v in seen.items()][:40],
        "operation_table": "P3: every operation the pinned width-1 type of the element offers (see c19.py P3_HEAD), instantiated for every provided Vector<T,N> and Vector_mask<T,N>; Denominator<V>, convert<>, Aligned_allocator, prefetch",
    }
    runmod.write_evidence(pid, tier, cov, runmod.PROPS[pid], time.time() - t0, nviol)
    print("%s %s: %d compile/link jobs over %d points, %d distinct non-trivial, %d violations, %.1fs" % (pid, tier, evals, len({j[0][0].name for j in results}), len(nontriv), nviol, time.time() - t0))
    return 1 if nviol else 0


def replay(d, path, runmod):
    global RUN
    RUN = runmod
    pt = Point(d["point"]["macros"], d["point"]["auto"], d["point"]["cxx"], d["point"]["std"])
    prog = d["program"]
    text = P1 if prog == "P1" else gen_p2(effective(pt)) if prog == "P2" else gen_p3(effective(pt)) if prog == "P3" else gen_p3f(effective(pt))
    rc, err = compile_point(pt, prog, text, prog in ("P3", "P3F"))
    keys = err_keys(err) if rc else []
    print("REPLAY %s point=%s program=%s keys=%s" % ("FAIL" if rc else "PASS", pt.name, prog, keys))
    if rc and d.get("key") in keys or (rc and not d.get("key")):
        print("VIOLATION property=%s replay=%s" % (d["property"], path))
        return 1
    return 0 if rc == 0 else 1
