#!/usr/bin/env python3
"""Confirm a sub-agent's mutation and run the property's check against it.
  seed_eval.py <Cxx> <mK> [extra property ids to run as well]
Steps: (1) in the scratch worktree /tmp/mut/<Cxx>: demo fails with the patch, repository suite still passes with it, demo passes without it;
(2) apply the patch to /repo, run `python3 run.py <Cxx> quick`, undo it; (3) store everything under /verif/seeded/<Cxx>-<mK>/."""
import os, sys, json, subprocess, shutil, time
pid, mk = sys.argv[1], sys.argv[2]
extra = sys.argv[3:]
base = os.environ.get("MUT_BASE", "/tmp/mut")
src = "%s/out/%s/%s" % (base, pid, mk)
wt = "%s/%s" % (base, pid)
dst = "/verif/seeded/%s-%s%s" % (pid, os.environ.get("MUT_TAG", ""), mk)
def sh(cmd, cwd=None, timeout=3600):
    r = subprocess.run(cmd, shell=True, cwd=cwd, stdout=subprocess.PIPE, stderr=subprocess.STDOUT, text=True, timeout=timeout)
    return r.returncode, r.stdout
meta = json.load(open(os.path.join(src, "meta.json")))
res = {"agent_meta": meta}
assert sh("git -C %s status --porcelain --untracked-files=no" % wt)[1].strip() == "", "worktree not clean"
assert sh("git -C /repo status --porcelain --untracked-files=no")[1].strip() == "", "/repo not clean"
rc, out = sh("bash run_demo.sh %s/include" % wt, cwd=src); res["demo_without_patch"] = {"exit": rc, "tail": out[-300:]}
rc, out = sh("git -C %s apply %s/patch.diff" % (wt, src)); assert rc == 0, out
try:
    rc, out = sh("bash run_demo.sh %s/include" % wt, cwd=src); res["demo_with_patch"] = {"exit": rc, "tail": out[-400:]}
    if os.path.isdir(wt + "/_build"):
        rc, out = sh("cmake --build %s/_build -j8 2>&1 | tail -2; %s/_build/tests/AVEL_TESTS | tail -2" % (wt, wt)); res["suite_with_patch"] = out[-200:]
    else:
        res["suite_with_patch"] = "no _build in worktree (agent did not build?)"
finally:
    sh("git -C %s checkout -- ." % wt)
rc, out = sh("git -C /repo apply %s/patch.diff" % src); assert rc == 0, out
try:
    res["checks"] = {}
    for p in [pid] + extra:
        t0 = time.time()
        ev = "/verif/evidence/%s.json" % p      # the evidence file describes runs on the unchanged tree: keep it
        saved = open(ev).read() if os.path.exists(ev) else None
        rc, out = sh("python3 run.py %s quick" % p, cwd="/verif")
        if saved is not None:
            open(ev, "w").write(saved)
        lines = [l for l in out.split("\n") if l.startswith("VIOLATION") or l.startswith("BROKEN") or l.startswith("   config=") or l.startswith("   program=")]
        res["checks"][p] = {"exit": rc, "wall_s": round(time.time() - t0, 1), "summary": out.strip().split("\n")[-1], "first_lines": lines[:6]}
finally:
    sh("git -C /repo checkout -- .")
    assert sh("git -C /repo status --porcelain --untracked-files=no")[1].strip() == ""
os.makedirs(dst, exist_ok=True)
for f in ("patch.diff", "demo.cpp", "run_demo.sh"):
    shutil.copy(os.path.join(src, f), dst)
ok = res["demo_without_patch"]["exit"] == 0 and res["demo_with_patch"]["exit"] != 0 and "PASSED  ] 1459" in res.get("suite_with_patch", "")
json.dump({"property": pid, "mutation": mk, "breaks": meta.get("what_it_breaks"), "needs": meta.get("needs"), "files_changed": meta.get("files_changed"),
           "confirmed_by_me": ok, "what_i_ran": ["bash run_demo.sh <include> with and without the patch in a scratch worktree", "cmake --build + AVEL_TESTS with the patch (1459 tests)", "git -C /repo apply patch.diff; python3 run.py %s quick; git -C /repo checkout -- ." % pid],
           "results": res, "detected": {p: (v["exit"] == 1) for p, v in res["checks"].items()}}, open(os.path.join(dst, "meta.json"), "w"), indent=1)
print(pid, mk, "confirmed" if ok else "NOT-CONFIRMED", {p: v["exit"] for p, v in res["checks"].items()}, res["checks"][pid]["summary"][-120:])
