#!/usr/bin/env python3
"""Copy one replay file per distinct failure signature into regressions/<id>/ (minimal cases of
confirmed findings, replayed in every configuration on every run)."""
import json, glob, os, sys, re
pid = sys.argv[1]
pat = sys.argv[2] if len(sys.argv) > 2 else ""
os.makedirs("regressions/" + pid, exist_ok=True)
seen = set()
for p in sorted(glob.glob("replays/%s/*.json" % pid)):
    d = json.load(open(p))
    if pat and not re.search(pat, d["sig"]):
        continue
    if d["sig"] in seen:
        continue
    seen.add(d["sig"])
    n = "regressions/%s/%s.json" % (pid, re.sub(r"[^A-Za-z0-9_.-]+", "_", d["sig"]))
    if not os.path.exists(n):
        json.dump(d, open(n, "w"), indent=1)
        print("added", n)
