#!/usr/bin/env python3
"""Write a regression Case by hand: mkcase.py <Cxx> <name> <target> <opindex> <opname> s0,s1,s2,s3 v0lanes [v1lanes [v2lanes [v3lanes]]] -- note
lanes are comma separated hex values."""
import json, sys, os
TARGETS = ["vec1x8u","vec1x8i","vec1x16u","vec1x16i","vec1x32u","vec1x32i","vec1x64u","vec1x64i","vec1x32f","vec1x64f",
 "vec16x8u","vec16x8i","vec8x16u","vec8x16i","vec4x32u","vec4x32i","vec2x64u","vec2x64i","vec4x32f","vec2x64f",
 "vec32x8u","vec32x8i","vec16x16u","vec16x16i","vec8x32u","vec8x32i","vec4x64u","vec4x64i","vec8x32f","vec4x64f",
 "vec64x8u","vec64x8i","vec32x16u","vec32x16i","vec16x32u","vec16x32i","vec8x64u","vec8x64i","vec16x32f","vec8x64f"]
pid, name, target, opi, opname, s = sys.argv[1:7]
rest = sys.argv[7:]
note = ""
if "--" in rest:
    k = rest.index("--"); note = " ".join(rest[k + 1:]); rest = rest[:k]
svals = [int(x, 0) for x in s.split(",")] + [0] * 4
words = []
vs = []
for k, lanes in enumerate(rest):
    ls = [int(x, 16) for x in lanes.split(",") if x != ""]
    vs.append(["%x" % x for x in ls])
    for i, x in enumerate(ls):
        if x:
            words.append("%x:%x" % (k * 64 + i, x))
ti = TARGETS.index(target) if target in TARGETS else int(target)
text = "%d %s %d %d %d %d" % (ti, opi, svals[0], svals[1], svals[2], svals[3]) + ("" if not words else " " + " ".join(words))
os.makedirs("regressions/" + pid, exist_ok=True)
json.dump({"property": pid, "sig": "%s|%s|manual" % (target, opname), "note": note,
           "case": {"target": target, "op": opname, "s": svals[:4], "v": vs, "text": text}}, open("regressions/%s/%s.json" % (pid, name), "w"), indent=1)
print(text)
