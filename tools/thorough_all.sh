#!/bin/bash
# run the thorough tier of every property in turn (each bounded to 55 minutes of wall time); one line per property in $1
out=${1:-/tmp/thorough_all.log}
cd /verif
for p in "${@:2}"; do
  s=$(date +%s)
  timeout 3300 python3 run.py $p thorough > /tmp/t_$p.log 2>&1
  rc=$?
  echo "$p exit=$rc $(grep -c '^VIOLATION' /tmp/t_$p.log) viol $(grep -c '^BROKEN' /tmp/t_$p.log) broken :: $(grep -v '^KNOWN' /tmp/t_$p.log | tail -1 | cut -c1-200)" >> $out
done
