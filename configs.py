#!/usr/bin/env python3
"""Build configurations for the AVEL checks.

A configuration is (explicit AVEL macros, compiler, -std, -O, sanitizer).  The -m flags are
derived from the closure of the macros under include/avel/impl/Capabilities.hpp (the code, which
is what decides the selected #if arm).  This file also contains the #if-arm coverage script that
computes, from the current tree, which preprocessor arms a set of configurations selects, and a
greedy minimal cover of all reachable x86 arms (the quick tier's configuration list).
"""
import os, re, sys, json, hashlib

X86_MACROS = [
    "X86", "POPCNT", "LZCNT", "BMI", "BMI2", "PREFETCH",
    "SSE2", "SSE3", "SSSE3", "SSE4_1", "SSE4_2", "AVX", "AVX2", "FMA",
    "AVX512F", "AVX512CD", "AVX512VL", "AVX512DQ", "AVX512BW",
    "AVX512VPOPCNTDQ", "AVX512VBMI", "AVX512VBMI2", "AVX512BITALG", "GFNI",
]

FLAG = {
    "SSE2": "-msse2", "SSE3": "-msse3", "SSSE3": "-mssse3", "SSE4_1": "-msse4.1",
    "SSE4_2": "-msse4.2", "AVX": "-mavx", "AVX2": "-mavx2", "FMA": "-mfma",
    "AVX512F": "-mavx512f", "AVX512CD": "-mavx512cd", "AVX512VL": "-mavx512vl",
    "AVX512DQ": "-mavx512dq", "AVX512BW": "-mavx512bw",
    "AVX512VPOPCNTDQ": "-mavx512vpopcntdq", "AVX512VBMI": "-mavx512vbmi",
    "AVX512VBMI2": "-mavx512vbmi2", "AVX512BITALG": "-mavx512bitalg", "GFNI": "-mgfni",
    "POPCNT": "-mpopcnt", "LZCNT": "-mlzcnt", "BMI": "-mbmi", "BMI2": "-mbmi2",
}

# implication ladder exactly as include/avel/impl/Capabilities.hpp applies it (order matters there,
# here we iterate to a fixed point)
IMPLIES = {
    "GFNI": ["AVX512F"], "AVX512VBMI2": ["AVX512F"], "AVX512VBMI": ["AVX512F"],
    "AVX512BITALG": ["AVX512F"], "AVX512VPOPCNTDQ": ["AVX512F"], "AVX512CD": ["AVX512F"],
    "AVX512VL": ["AVX512F"], "AVX512DQ": ["AVX512F"], "AVX512BW": ["AVX512F"],
    "AVX512F": ["AVX2", "FMA"], "FMA": ["AVX"], "AVX2": ["AVX"], "AVX": ["SSE4_2"],
    "SSE4_2": ["SSE4_1", "POPCNT"], "SSE4_1": ["SSSE3"], "SSSE3": ["SSE3"], "SSE3": ["SSE2"],
    "SSE2": ["SSE"], "SSE": ["PREFETCH", "X86"], "BMI2": ["X86"], "BMI": ["X86"],
    "LZCNT": ["X86"], "POPCNT": ["X86"], "PREFETCH": ["X86"],
}
# documented implications (docs/Capabilities.md) that the code does not apply: BMI2 -> BMI and
# SSE4_1 -> POPCNT.  Flags follow the documentation's closure so that documented usage compiles.
DOC_IMPLIES = dict(IMPLIES)
DOC_IMPLIES["BMI2"] = ["BMI", "X86"]
DOC_IMPLIES["SSE4_1"] = ["SSSE3", "POPCNT"]


def closure(macros, table=IMPLIES):
    s = set(macros)
    changed = True
    while changed:
        changed = False
        for m in list(s):
            for n in table.get(m, []):
                if n not in s:
                    s.add(n)
                    changed = True
    return s


def mflags(macros):
    c = closure(macros, DOC_IMPLIES) | closure(macros)
    return sorted({FLAG[m] for m in c if m in FLAG})


class Config:
    def __init__(self, macros=(), cxx="g++", std="c++11", opt="-O1", san=False, extra=()):
        self.macros = tuple(sorted(set(macros), key=lambda m: X86_MACROS.index(m) if m in X86_MACROS else 99))
        self.cxx, self.std, self.opt, self.san, self.extra = cxx, std, opt, san, tuple(extra)

    @property
    def macro_name(self):
        if not self.macros:
            return "none"
        return "+".join(m.replace("AVX512", "") if m != "AVX512F" else "F" for m in self.macros)

    @property
    def name(self):
        n = "%s-%s%s-%s" % ({"g++": "gcc", "clang++": "clang"}[self.cxx], self.std.replace("c++", "cxx"),
                            self.opt, self.macro_name)
        if "-DAVEL_AUTO_DETECT" in self.extra:
            n += "-autodetect" + "".join(e.replace("-march=", "-") for e in self.extra if e.startswith("-march="))
        if "-DNDEBUG" in self.extra:
            n += "-ndebug"
        if "-fstrict-aliasing" in self.extra:
            n += "-strictalias"
        if "-DVP_DEFAULT_FP" in self.extra:
            n += "-defaultfp" + "".join(e.replace("-m", "+") for e in self.extra if e.startswith("-m") and not e.startswith("-march="))
        lines = [e.split("=")[1] for e in self.extra if e.startswith("-DAVEL_L") and "CACHE_LINE_SIZE=" in e]
        if lines:
            n += "-lines" + ".".join(lines)
        if self.san:
            n += "-" + self.san_mode
        return n

    @property
    def san_mode(self):
        # "asan": AddressSanitizer + UBSan(trap) with the ASan runtime (g++ only, driver also instrumented)
        # "ubtrap": UBSan in trap mode only - needs no runtime, works with either compiler
        if not self.san:
            return ""
        return self.san if isinstance(self.san, str) else "asan"

    def flags(self):
        f = ["-std=" + self.std, self.opt, "-fno-strict-aliasing", "-w"] + ([] if self.san else ["-g0"])
        f += ["-DAVEL_" + m for m in self.macros]
        f += mflags(self.macros)
        if self.san_mode == "asan":
            f += ["-fsanitize=address,undefined", "-fsanitize-undefined-trap-on-error", "-fno-omit-frame-pointer", "-g1"]
        elif self.san_mode == "ubtrap":
            f += ["-fsanitize=undefined", "-fsanitize-undefined-trap-on-error", "-fno-omit-frame-pointer", "-g1"]
        f += list(self.extra)
        return f

    def to_json(self):
        return {"name": self.name, "macros": list(self.macros), "cxx": self.cxx, "std": self.std,
                "opt": self.opt, "san": self.san, "extra": list(self.extra)}

    @staticmethod
    def from_json(d):
        return Config(d["macros"], d["cxx"], d["std"], d["opt"], d.get("san", False), d.get("extra", ()))


ALL512 = ["AVX512F", "AVX512CD", "AVX512VL", "AVX512DQ", "AVX512BW", "AVX512VPOPCNTDQ",
          "AVX512VBMI", "AVX512VBMI2", "AVX512BITALG", "GFNI"]
EVERYTHING = ALL512 + ["LZCNT", "BMI2", "BMI", "POPCNT"]


def lattice_macro_sets():
    """Thorough-tier macro lattice (DESIGN 2.2)."""
    L = [[], ["X86"], ["POPCNT"], ["LZCNT"], ["BMI"], ["BMI2"], ["POPCNT", "LZCNT", "BMI", "BMI2"],
         ["SSE2"], ["SSE2", "POPCNT"], ["SSE3"], ["SSSE3"], ["SSSE3", "POPCNT"], ["SSE4_1"], ["SSE4_1", "POPCNT"], ["SSE4_2"], ["AVX"], ["AVX2"],
         ["FMA"], ["AVX2", "FMA"]]
    for v in ("SSE2", "SSE4_1", "AVX2"):
        for s in ("LZCNT", "BMI", "BMI2"):
            L.append([v, s])
    L.append(["AVX512F"])
    for e in ALL512[1:]:
        L.append([e])
    S = lambda x: "AVX512" + x
    for combo in (("VL", "BW"), ("VL", "DQ"), ("VL", "CD"), ("VL", "VBMI2"), ("VL", "VPOPCNTDQ"),
                  ("VL", "BITALG"), ("BW", "BITALG"), ("BW", "VBMI"), ("BW", "VBMI2"), ("BW", "CD"),
                  ("VL", "BW", "CD"), ("VL", "BW", "DQ"), ("VL", "BW", "DQ", "CD"),
                  ("VL", "BW", "VBMI"), ("VL", "BW", "VBMI2"), ("VL", "BW", "BITALG")):
        L.append([S(c) for c in combo])
    L.append(["AVX512BW", "GFNI"])
    L.append(["AVX512VL", "AVX512BW", "GFNI"])
    L.append(list(ALL512))
    L.append(list(EVERYTHING))
    out, seen = [], set()
    for m in L:
        k = tuple(sorted(m))
        if k not in seen:
            seen.add(k)
            out.append(m)
    return out


# ------------------------------------------------------------------------------------------------
# #if-arm coverage
# ------------------------------------------------------------------------------------------------
_dir_re = re.compile(r"^\s*#\s*(if|ifdef|ifndef|elif|else|endif)\b(.*)$")


def _strip_comments(text):
    text = re.sub(r"/\*.*?\*/", lambda m: "\n" * m.group(0).count("\n"), text, flags=re.S)
    text = re.sub(r"//[^\n]*", "", text)
    return text


def parse_ladders(path):
    """Return list of ladders; a ladder is a list of arms (line, condition-string or None for else)."""
    with open(path, errors="replace") as f:
        text = _strip_comments(f.read())
    # join continuation lines
    lines = text.split("\n")
    ladders, stack = [], []
    i = 0
    while i < len(lines):
        ln = lines[i]
        start = i
        while ln.endswith("\\") and i + 1 < len(lines):
            i += 1
            ln = ln[:-1] + " " + lines[i]
        m = _dir_re.match(ln)
        if m:
            d, rest = m.group(1), m.group(2).strip()
            if d in ("if", "ifdef", "ifndef"):
                cond = rest if d == "if" else ("defined(%s)" % rest if d == "ifdef" else "!defined(%s)" % rest)
                lad = {"file": path, "arms": [(start + 1, cond)]}
                stack.append(lad)
            elif d == "elif" and stack:
                stack[-1]["arms"].append((start + 1, rest))
            elif d == "else" and stack:
                stack[-1]["arms"].append((start + 1, None))
            elif d == "endif" and stack:
                ladders.append(stack.pop())
        i += 1
    return ladders


_def_re = re.compile(r"defined\s*\(\s*(\w+)\s*\)|defined\s+(\w+)")


def eval_cond(cond, defs, cplusplus=201103):
    def rep(m):
        name = m.group(1) or m.group(2)
        return " True " if name in defs else " False "
    e = _def_re.sub(rep, cond)
    e = e.replace("&&", " and ").replace("||", " or ")
    e = re.sub(r"!(?!=)", " not ", e)
    e = e.replace("__cplusplus", str(cplusplus))
    e = re.sub(r"\b(\d+)[uUlL]+\b", r"\1", e)
    e = re.sub(r"\b[A-Za-z_]\w*\b", lambda m: m.group(0) if m.group(0) in ("True", "False", "and", "or", "not") else "0", e)
    try:
        return bool(eval(e, {"__builtins__": {}}, {}))
    except Exception:
        return False


def defs_for(macros, cxx="g++"):
    d = {"AVEL_" + m for m in closure(macros)}
    d.add("AVEL_GCC" if cxx == "g++" else "AVEL_CLANG")
    d.add("__GNUC__")
    if cxx != "g++":
        d.add("__clang__")
    return d


def selected_arms(ladders, macros, cxx="g++", cplusplus=201103, fine=False):
    """the arm every ladder selects; fine=True also records which of the macros named in the arm's own condition are
    defined, so that each distinct way of satisfying a condition (each disjunct, a widened guard) counts separately"""
    defs = defs_for(macros, cxx)
    sel = set()
    for li, lad in enumerate(lad_ for lad_ in ladders):
        for ai, (line, cond) in enumerate(lad["arms"]):
            if cond is None or eval_cond(cond, defs, cplusplus):
                if fine:
                    sel.add((li, ai, frozenset(a for a in re.findall(r"AVEL_\w+", cond or "") if a in defs)))
                else:
                    sel.add((li, ai))
                break
    return sel


def x86_ladders(include_root, files=None):
    """Ladders that mention an x86 feature macro in some arm."""
    out = []
    for root, _, fs in os.walk(include_root):
        for f in sorted(fs):
            if not f.endswith(".hpp"):
                continue
            p = os.path.join(root, f)
            rel = os.path.relpath(p, os.path.dirname(os.path.dirname(include_root)))
            if files is not None and not any(rel.endswith(x) or x.endswith(rel) for x in files):
                continue
            for lad in parse_ladders(p):
                if any(c and re.search(r"AVEL_(%s)\b" % "|".join(X86_MACROS + ["SSE"]), c) for _, c in lad["arms"]):
                    out.append(lad)
    return out


def arm_cover(include_root, candidate_sets=None, files=None, fine=False):
    """Greedy cover of all arms reachable by some candidate macro set. Returns (cover, stats)."""
    ladders = x86_ladders(include_root, files)
    if candidate_sets is None:
        candidate_sets = lattice_macro_sets()
    sel = {tuple(m): selected_arms(ladders, m, fine=fine) for m in candidate_sets}
    reachable = set().union(*sel.values()) if sel else set()
    total = sum(len(l["arms"]) for l in ladders)
    uncovered = set(reachable)
    cover = []
    while uncovered:
        best = max(sel, key=lambda k: (len(sel[k] & uncovered), -len(k)))
        gain = sel[best] & uncovered
        if not gain:
            break
        cover.append(list(best))
        uncovered -= gain
    return cover, {"ladders": len(ladders), "arms_total": total, "arms_reachable": len(reachable),
                   "cover_size": len(cover)}


def axis_cover(include_root, base_sets, candidate_sets=None, files=None):
    """Arms that no (g++, C++11) build selects but another compiler or standard does (arms guarded
    by AVEL_CLANG, __cplusplus, ...): a greedy cover of those by (macro set, compiler, standard)."""
    ladders = x86_ladders(include_root, files)
    if candidate_sets is None:
        candidate_sets = lattice_macro_sets()
    base = set()
    for m in candidate_sets:
        base |= selected_arms(ladders, m)
    for m in base_sets:
        base |= selected_arms(ladders, m)
    out = []
    for cxx, std, cpp in (("clang++", "c++11", 201103), ("g++", "c++20", 202002), ("clang++", "c++20", 202002)):
        sel = {tuple(m): selected_arms(ladders, m, cxx, cpp) - base for m in candidate_sets}
        uncovered = set().union(*sel.values()) if sel else set()
        while uncovered:
            best = max(sel, key=lambda k: (len(sel[k] & uncovered), -len(k)))
            gain = sel[best] & uncovered
            if not gain:
                break
            out.append((list(best), cxx, std))
            uncovered -= gain
            base |= gain
    return out


def minimal_selecting_sets(include_root, candidate_sets=None, files=None):
    """For every arm, the candidate macro sets that select it and are minimal under (closed) inclusion: the builds in
    which an arm whose guard asks for less than its body needs (a dropped AVX512VL, say) fails to compile."""
    ladders = x86_ladders(include_root, files)
    cands = [tuple(m) for m in (candidate_sets or lattice_macro_sets())]
    sel = {m: selected_arms(ladders, m) for m in cands}
    cl = {m: frozenset(closure(m)) for m in cands}
    arms = {}
    for m, s in sel.items():
        for a in s:
            arms.setdefault(a, []).append(m)
    need = []
    for a, ms in arms.items():
        for m in ms:
            if not any(cl[o] < cl[m] for o in ms) and list(m) not in need:
                need.append(list(m))
    return sorted(need, key=lambda m: (len(m), m))


def arms_selected_by(include_root, macro_sets, files=None):
    ladders = x86_ladders(include_root, files)
    got = set()
    for m in macro_sets:
        got |= selected_arms(ladders, m)
    total = sum(len(l["arms"]) for l in ladders)
    unsel = []
    for li, lad in enumerate(ladders):
        for ai, (line, cond) in enumerate(lad["arms"]):
            if (li, ai) not in got:
                unsel.append("%s:%d %s" % (os.path.relpath(lad["file"], include_root), line, (cond or "else")[:60]))
    return {"ladders": len(ladders), "arms_total": total, "arms_selected": len(got), "arms_unselected_sample": unsel[:12],
            "arms_unselected": len(unsel)}


# Fixed fallback quick list (the greedy cover computed on the pinned tree); quick_macro_sets()
# recomputes the cover from the current tree so that a re-guarded arm is still executed.
PINNED_QUICK = [
    [], ["SSE2"], ["SSSE3"], ["SSE4_1", "BMI"], ["SSE4_2"], ["AVX2"], ["AVX2", "FMA", "LZCNT", "BMI2"], ["AVX512F"],
    ["AVX512BW"], ["AVX512VL", "AVX512BW"], ["AVX512VL", "AVX512DQ"], ["AVX512VL", "AVX512CD", "AVX512BITALG"],
    list(EVERYTHING),
]


def quick_macro_sets(include_root):
    try:
        cover, _ = arm_cover(include_root)
        cover += arm_cover(include_root, fine=True)[0]
    except Exception:
        cover = []
    out, seen = [], set()
    for m in PINNED_QUICK + cover:
        k = tuple(sorted(m))
        if k not in seen:
            seen.add(k)
            out.append(m)
    return out


if __name__ == "__main__":
    root = sys.argv[1] if len(sys.argv) > 1 else "/repo/include/avel"
    cover, st = arm_cover(root)
    print(json.dumps(st))
    for c in cover:
        print("  ", "+".join(c) or "none")
    print(json.dumps(arms_selected_by(root, quick_macro_sets(root)), indent=1))
