// helpers shared by the floating-point checks (C10-C13)
#ifndef VP_FPCOMMON_HPP
#define VP_FPCOMMON_HPP
#include "vp.hpp"
#include "ref/fpref.h"
namespace vp {
template<class T> struct FB {
    static const unsigned B = sizeof(T) * 8, MB = B == 32 ? 23 : 52, EB = B - 1 - MB;
    static uint64_t mask() { return B == 64 ? ~0ull : ((1ull << B) - 1); }
    static uint64_t sgn() { return 1ull << (B - 1); }
    static uint64_t absm() { return mask() >> 1; }
    static uint64_t expmask() { return ((1ull << EB) - 1) << MB; }
    static uint64_t mant(uint64_t x) { return x & ((1ull << MB) - 1); }
    static uint64_t exp(uint64_t x) { return (x & expmask()) >> MB; }
    static bool isnan(uint64_t x) { return (x & expmask()) == expmask() && mant(x); }
    static bool isinf(uint64_t x) { return (x & absm()) == expmask(); }
    static bool iszero(uint64_t x) { return (x & absm()) == 0; }
    static bool issub(uint64_t x) { return exp(x) == 0 && mant(x); }
    static bool isfinite(uint64_t x) { return (x & expmask()) != expmask(); }
    static bool isnormal(uint64_t x) { return exp(x) != 0 && isfinite(x); }
    static bool isintegral(uint64_t x) {   // finite and an integer value (zeros included)
        if (!isfinite(x)) return false;
        if (iszero(x)) return true;
        int e = (int)exp(x) - (int)((1u << (EB - 1)) - 1);
        if (e < 0) return false;
        if (e >= (int)MB) return true;
        return (mant(x) & ((1ull << (MB - e)) - 1)) == 0;
    }
    static __int128 key(uint64_t x) { __int128 mag = (__int128)(x & absm()); return (x & sgn()) ? -mag : mag; }
    // numerically equal (both NaN counts as equal; +0 == -0)
    static bool numeq(uint64_t a, uint64_t b) { if (isnan(a) || isnan(b)) return isnan(a) && isnan(b); return key(a) == key(b); }
};
// reference dispatch by width
template<class T> struct Ref;
template<> struct Ref<float> {
    static uint64_t bin(int op, uint64_t a, uint64_t b) { return ref32_bin(op, (uint32_t)a, (uint32_t)b); }
    static uint64_t un(int op, uint64_t a) { return ref32_un(op, (uint32_t)a); }
    static uint64_t fma(uint64_t a, uint64_t b, uint64_t c) { return ref32_fma((uint32_t)a, (uint32_t)b, (uint32_t)c); }
    static uint64_t frexp(uint64_t a, int* e) { return ref32_frexp((uint32_t)a, e); }
    static uint64_t ldexp(uint64_t a, long e) { return ref32_ldexp((uint32_t)a, e); }
    static uint64_t scalbn(uint64_t a, long e) { return ref32_scalbn((uint32_t)a, e); }
    static int ilogb(uint64_t a) { return ref32_ilogb((uint32_t)a); }
    static int fpclassify(uint64_t a) { return ref32_fpclassify((uint32_t)a); }
};
template<> struct Ref<double> {
    static uint64_t bin(int op, uint64_t a, uint64_t b) { return ref64_bin(op, a, b); }
    static uint64_t un(int op, uint64_t a) { return ref64_un(op, a); }
    static uint64_t fma(uint64_t a, uint64_t b, uint64_t c) { return ref64_fma(a, b, c); }
    static uint64_t frexp(uint64_t a, int* e) { return ref64_frexp(a, e); }
    static uint64_t ldexp(uint64_t a, long e) { return ref64_ldexp(a, e); }
    static uint64_t scalbn(uint64_t a, long e) { return ref64_scalbn(a, e); }
    static int ilogb(uint64_t a) { return ref64_ilogb(a); }
    static int fpclassify(uint64_t a) { return ref64_fpclassify(a); }
};
// floating-point environment snapshot: MXCSR control field (rounding control, FTZ, DAZ, exception masks) and the x87 control word
struct FpEnv {
    uint32_t mxcsr_ctl, x87;
    static FpEnv take() { FpEnv e; e.mxcsr_ctl = ref_get_mxcsr() & 0xFFC0u; e.x87 = ref_get_x87cw(); return e; }
    bool same(const FpEnv& o) const { return mxcsr_ctl == o.mxcsr_ctl && x87 == o.x87; }
};
struct RoundGuard {   // sets the rounding mode for the scope and always restores round-to-nearest
    explicit RoundGuard(int mode) { ref_setround(mode); }
    ~RoundGuard() { ref_setround(0); }
};
}  // namespace vp
#endif
