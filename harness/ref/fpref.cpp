#include "fpref.h"
#include <cmath>
#include <cfenv>
#include <cstring>
#include <climits>
#include <xmmintrin.h>

static inline float f32(uint32_t b) { float f; std::memcpy(&f, &b, 4); return f; }
static inline uint32_t b32(float f) { uint32_t b; std::memcpy(&b, &f, 4); return b; }
static inline double f64(uint64_t b) { double f; std::memcpy(&f, &b, 8); return f; }
static inline uint64_t b64(double f) { uint64_t b; std::memcpy(&b, &f, 8); return b; }
static inline int clampi(long e) { return e > INT_MAX ? INT_MAX : (e < INT_MIN ? INT_MIN : (int)e); }

extern "C" {
uint32_t ref32_fma(uint32_t a, uint32_t b, uint32_t c) { volatile float x = f32(a), y = f32(b), z = f32(c); volatile float r = std::fma((float)x, (float)y, (float)z); return b32(r); }
uint64_t ref64_fma(uint64_t a, uint64_t b, uint64_t c) { volatile double x = f64(a), y = f64(b), z = f64(c); volatile double r = std::fma((double)x, (double)y, (double)z); return b64(r); }
uint32_t ref32_bin(int op, uint32_t a, uint32_t b) {
    volatile float x = f32(a), y = f32(b); volatile float r;
    switch (op) {
    case R_ADD: r = x + y; break; case R_SUB: r = x - y; break; case R_MUL: r = x * y; break; case R_DIV: r = x / y; break;
    case R_FMAX: r = std::fmax((float)x, (float)y); break; case R_FMIN: r = std::fmin((float)x, (float)y); break; default: r = std::fdim((float)x, (float)y); break;
    }
    return b32(r);
}
uint64_t ref64_bin(int op, uint64_t a, uint64_t b) {
    volatile double x = f64(a), y = f64(b); volatile double r;
    switch (op) {
    case R_ADD: r = x + y; break; case R_SUB: r = x - y; break; case R_MUL: r = x * y; break; case R_DIV: r = x / y; break;
    case R_FMAX: r = std::fmax((double)x, (double)y); break; case R_FMIN: r = std::fmin((double)x, (double)y); break; default: r = std::fdim((double)x, (double)y); break;
    }
    return b64(r);
}
uint32_t ref32_un(int op, uint32_t a) {
    volatile float x = f32(a); volatile float r;
    switch (op) {
    case R_SQRT: r = std::sqrt((float)x); break; case R_CEIL: r = std::ceil((float)x); break; case R_FLOOR: r = std::floor((float)x); break;
    case R_TRUNC: r = std::trunc((float)x); break; case R_ROUND: r = std::round((float)x); break; case R_NEARBYINT: r = std::nearbyint((float)x); break;
    case R_RINT: r = std::rint((float)x); break; case R_LOGB: r = std::logb((float)x); break;
    default: { volatile float t = std::trunc((float)x); r = x - t; break; }
    }
    return b32(r);
}
uint64_t ref64_un(int op, uint64_t a) {
    volatile double x = f64(a); volatile double r;
    switch (op) {
    case R_SQRT: r = std::sqrt((double)x); break; case R_CEIL: r = std::ceil((double)x); break; case R_FLOOR: r = std::floor((double)x); break;
    case R_TRUNC: r = std::trunc((double)x); break; case R_ROUND: r = std::round((double)x); break; case R_NEARBYINT: r = std::nearbyint((double)x); break;
    case R_RINT: r = std::rint((double)x); break; case R_LOGB: r = std::logb((double)x); break;
    default: { volatile double t = std::trunc((double)x); r = x - t; break; }
    }
    return b64(r);
}
uint32_t ref32_frexp(uint32_t a, int* e) { return b32(std::frexp(f32(a), e)); }
uint64_t ref64_frexp(uint64_t a, int* e) { return b64(std::frexp(f64(a), e)); }
uint32_t ref32_ldexp(uint32_t a, long e) { return b32(std::ldexp(f32(a), clampi(e))); }
uint64_t ref64_ldexp(uint64_t a, long e) { return b64(std::ldexp(f64(a), clampi(e))); }
uint32_t ref32_scalbn(uint32_t a, long e) { return b32(std::scalbn(f32(a), clampi(e))); }
uint64_t ref64_scalbn(uint64_t a, long e) { return b64(std::scalbn(f64(a), clampi(e))); }
int ref32_ilogb(uint32_t a) { return std::ilogb(f32(a)); }
int ref64_ilogb(uint64_t a) { return std::ilogb(f64(a)); }
int ref32_fpclassify(uint32_t a) { return std::fpclassify(f32(a)); }
int ref64_fpclassify(uint64_t a) { return std::fpclassify(f64(a)); }
uint32_t ref32_bin_via_double(int op, uint32_t a, uint32_t b) {
    volatile double x = (double)f32(a), y = (double)f32(b); volatile double r;
    switch (op) { case R_ADD: r = x + y; break; case R_SUB: r = x - y; break; case R_MUL: r = x * y; break; default: r = x / y; break; }
    volatile float f = (float)r;
    return b32(f);
}
uint32_t ref32_sqrt_via_double(uint32_t a) { volatile double x = (double)f32(a); volatile double r = std::sqrt((double)x); volatile float f = (float)r; return b32(f); }
uint32_t ref32_ldexp_via_double(uint32_t a, long e) {
    long c = e > 4000 ? 4000 : (e < -4000 ? -4000 : e);
    // binary64 has the range to hold x*2^c exactly when the result is inside binary32's range; beyond it saturates the same way
    volatile double r = std::ldexp((double)f32(a), (int)(c > 600 ? 600 : (c < -600 ? -600 : c)));
    volatile float f = (float)r;
    return b32(f);
}
void ref_setround(int mode) { static const int m[4] = {FE_TONEAREST, FE_DOWNWARD, FE_UPWARD, FE_TOWARDZERO}; std::fesetround(m[mode & 3]); }
int ref_getround(void) { int r = std::fegetround(); return r == FE_TONEAREST ? 0 : r == FE_DOWNWARD ? 1 : r == FE_UPWARD ? 2 : 3; }
uint32_t ref_get_mxcsr(void) { return _mm_getcsr(); }
void ref_set_mxcsr(uint32_t v) { _mm_setcsr(v); }
void ref_set_x87cw(uint32_t v) { unsigned short cw = (unsigned short)v; __asm__ __volatile__("fldcw %0" : : "m"(cw)); }
uint32_t ref_get_x87cw(void) { unsigned short cw; __asm__ __volatile__("fnstcw %0" : "=m"(cw)); return cw; }
int ref_fp_ilogb0(void) { return FP_ILOGB0; }
int ref_fp_ilogbnan(void) { return FP_ILOGBNAN; }
int ref_fp_const(int w) { return w == 0 ? FP_NAN : w == 1 ? FP_INFINITE : w == 2 ? FP_ZERO : w == 3 ? FP_SUBNORMAL : FP_NORMAL; }
}
