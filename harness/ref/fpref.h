// Reference floating-point oracle, compiled WITHOUT AVEL at -O0 -frounding-math -ffp-contract=off.
#ifndef VP_FPREF_H
#define VP_FPREF_H
#include <stdint.h>
#ifdef __cplusplus
extern "C" {
#endif
enum { R_ADD, R_SUB, R_MUL, R_DIV, R_FMAX, R_FMIN, R_FDIM, R_BIN_COUNT };
enum { R_SQRT, R_CEIL, R_FLOOR, R_TRUNC, R_ROUND, R_NEARBYINT, R_RINT, R_LOGB, R_FRAC, R_UN_COUNT };
uint32_t ref32_bin(int op, uint32_t a, uint32_t b);
uint64_t ref64_bin(int op, uint64_t a, uint64_t b);
uint32_t ref32_fma(uint32_t a, uint32_t b, uint32_t c);   // single rounding of a*b+c (used to classify cases, not as an oracle)
uint64_t ref64_fma(uint64_t a, uint64_t b, uint64_t c);
uint32_t ref32_un(int op, uint32_t a);
uint64_t ref64_un(int op, uint64_t a);
uint32_t ref32_frexp(uint32_t a, int* e);
uint64_t ref64_frexp(uint64_t a, int* e);
uint32_t ref32_ldexp(uint32_t a, long e);   // e is clamped to int range by the caller
uint64_t ref64_ldexp(uint64_t a, long e);
uint32_t ref32_scalbn(uint32_t a, long e);
uint64_t ref64_scalbn(uint64_t a, long e);
int ref32_ilogb(uint32_t a);
int ref64_ilogb(uint64_t a);
int ref32_fpclassify(uint32_t a);   // returns the FP_* constant of <cmath>
int ref64_fpclassify(uint64_t a);
// exact second opinions: binary32 result recomputed in binary64 and rounded once (valid for + - * / sqrt)
uint32_t ref32_bin_via_double(int op, uint32_t a, uint32_t b);
uint32_t ref32_sqrt_via_double(uint32_t a);
uint32_t ref32_ldexp_via_double(uint32_t a, long e);
// rounding mode / environment: mode 0 nearest, 1 down, 2 up, 3 toward zero
void ref_setround(int mode);
int ref_getround(void);
uint32_t ref_get_mxcsr(void);
void ref_set_mxcsr(uint32_t v);
uint32_t ref_get_x87cw(void);
void ref_set_x87cw(uint32_t v);
int ref_fp_ilogb0(void); int ref_fp_ilogbnan(void);
int ref_fp_const(int which);   // 0 FP_NAN 1 FP_INFINITE 2 FP_ZERO 3 FP_SUBNORMAL 4 FP_NORMAL
#ifdef __cplusplus
}
#endif
#endif
