// Shared harness core: the Case / Outcome C ABI between the generic drivers (rapidcheck, enumerator,
// libFuzzer, replay) and the per-property check objects, lane and mask I/O that does not go through
// AVEL's own load/store, integer reference helpers, type lists.
#ifndef VP_HPP
#define VP_HPP

#include <cstdint>
#include <cstring>
#include <cstdio>
#include <cstdlib>
#include <cstdarg>
#include <type_traits>
#include <array>
#include <vector>

// ------------------------------------------------------------------------------------------------
// C ABI
// ------------------------------------------------------------------------------------------------
extern "C" {

enum { VP_MAXL = 64, VP_NOPER = 4, VP_NSCAL = 4 };

// A Case is plain data, independent of the build configuration and totally decodable: every bit
// pattern is a valid Case (the check normalises out-of-domain material, e.g. a zero divisor lane is
// executed but not compared).
struct VpCase {
    uint32_t target;              // index into the check's target table
    uint32_t op;                  // index into the check's operation table
    int64_t  s[VP_NSCAL];         // scalar parameters (n, amount, lane index, offset, length ...)
    uint64_t v[VP_NOPER][VP_MAXL];// lane operands (bit patterns) or command words
};

struct VpOutcome {
    int32_t  status;              // 0 pass, 1 fail, 2 not applicable (type/op absent in this build)
    int32_t  bad_lane;            // first failing lane or -1
    uint32_t classes;             // bit set of input classes hit (names: vp_class_names)
    uint32_t nontrivial;          // case is non-trivial by the property's rule
    uint64_t lanes_compared;      // number of lane results compared against the oracle
    uint64_t expect[VP_MAXL];
    uint64_t actual[VP_MAXL];
    char     tag[96];             // failure class used for known-finding matching
    char     msg[256];            // human readable
};

// operand generator kinds understood by the drivers
enum {
    VK_NONE = 0,
    VK_INT,      // integer lane values of the target's element width (lattice mixture)
    VK_INT_REL,  // like VK_INT but with probability derived from the previous operand (equal, +-1, same
                 // upper half, negation, complement ...)
    VK_FLT,      // floating-point bit patterns of the target's element width
    VK_FLT_REL,  // derived from previous operand with probability (equal, adjacent, negated ...)
    VK_AMT,      // per-lane amounts in 0..bits
    VK_BOOL,     // 0/1 per lane (structured patterns + random)
    VK_RAW,      // raw 64-bit words (lattice of 64-bit values + uniform)
    VK_CMDS,     // command words, variable length; length goes to s[3]
    VK_IDX       // small signed indices (-32..32) per lane, mostly distinct
};
// scalar kinds
enum {
    SK_NONE = 0,
    SK_N,        // 0..width+2
    SK_AMT,      // 0..bits
    SK_ANYLL,    // any long long, biased to small, multiples of bits, negatives, extremes
    SK_LANE,     // 0..width-1
    SK_OFF,      // 0..63
    SK_SMALL,    // 0..15
    SK_INTVAL,   // one integer value of the element width (lattice mixture)
    SK_FLTVAL,   // one float bit pattern
    SK_RAW,      // raw 64-bit
    SK_EXP       // int exponent for ldexp/scalbn: {INT_MIN, -2^20, -400..400, 2^20, INT_MAX}
};

struct VpOp {
    const char* name;
    uint8_t vk[VP_NOPER];
    uint8_t sk[VP_NSCAL];
    uint32_t weight;      // relative number of random cases (0 = default 1); 1000 + k = exactly k random cases (expensive operations)
};

struct VpTarget {
    const char* name;     // e.g. vec4x32u
    uint32_t width;       // lanes
    uint32_t bits;        // element bits
    uint32_t cls;         // 0 unsigned, 1 signed, 2 float, 3 other (allocator, scalar family ...)
    uint32_t present;     // compiled in this configuration
};

// implemented by each check object
const char* vp_property(void);
const VpTarget* vp_targets(uint32_t* n);
const VpOp* vp_ops(uint32_t* n);
const char* const* vp_class_names(uint32_t* n);
const char* vp_rule(void);
void vp_run(const VpCase* c, VpOutcome* o);
// deterministic enumeration phase: calls emit() for every Case of the phase. tier 0 quick, 1 thorough.
// shard/nshards partition the work across processes.
void vp_enum(int tier, uint64_t seed, uint32_t shard, uint32_t nshards, void (*emit)(const VpCase*, void*), void* ctx);
// optional bulk sweep executed inside the check object (tight loops over exhaustive domains). Reports
// through emit() only the failing Cases (and a few samples) but adds to *evals / *lanes itself.
void vp_sweep(int tier, uint64_t seed, uint32_t shard, uint32_t nshards, void (*emit)(const VpCase*, void*), void* ctx,
              uint64_t* evals, uint64_t* lanes, char* domains, size_t domains_cap);
}

// ------------------------------------------------------------------------------------------------
// helpers for check objects
// ------------------------------------------------------------------------------------------------
#ifdef VP_CHECK_OBJECT

#include <avel/Avel.hpp>

namespace vp {

typedef unsigned __int128 u128;
typedef __int128 i128;

template<class T> struct elem {
    static const unsigned bits = sizeof(T) * 8;
    static const bool is_float = std::is_floating_point<T>::value;
    static const bool is_signed = std::is_signed<T>::value && !is_float;
    static uint64_t mask() { return bits == 64 ? ~uint64_t(0) : ((uint64_t(1) << bits) - 1); }
    static uint64_t to_bits(T x) { uint64_t r = 0; std::memcpy(&r, &x, sizeof(T)); return r; }
    static T from_bits(uint64_t b) { T x; std::memcpy(&x, &b, sizeof(T)); return x; }
    // sign-extended value for signed integers, zero-extended otherwise
    static int64_t sval(uint64_t b) {
        b &= mask();
        if (bits < 64 && (b >> (bits - 1))) b |= ~mask();
        return (int64_t)b;
    }
};

// ---- lane I/O independent of AVEL's load/store ----
template<class V> inline V mk(const uint64_t* lanes) {
    typedef typename V::scalar T;
    static_assert(sizeof(V) == V::width * sizeof(T), "vector object must be exactly its lanes");
    T tmp[V::width];
    for (unsigned i = 0; i < V::width; ++i) tmp[i] = elem<T>::from_bits(lanes[i]);
    V v;
    std::memcpy(&v, tmp, sizeof(V));
    return v;
}
template<class V> inline void rd(const V& v, uint64_t* lanes) {
    typedef typename V::scalar T;
    T tmp[V::width];
    std::memcpy(tmp, &v, sizeof(V));
    for (unsigned i = 0; i < V::width; ++i) lanes[i] = elem<T>::to_bits(tmp[i]);
}

// ---- mask I/O through the primitive ----
template<class M, class P = typename M::primitive,
         int K = std::is_same<P, bool>::value ? 0 : (std::is_integral<P>::value ? 1 : 2)>
struct mask_io;

template<class M, class P> struct mask_io<M, P, 0> {  // bool
    static M make(const uint64_t* b) { return M(P(b[0] & 1)); }
    static void read(const M& m, uint64_t* b, unsigned* noncanon) { b[0] = static_cast<P>(m) ? 1 : 0; }
};
template<class M, class P> struct mask_io<M, P, 1> {  // k-mask
    static M make(const uint64_t* b) {
        uint64_t bitsv = 0;
        for (unsigned i = 0; i < M::width; ++i) bitsv |= (b[i] & 1) << i;
        return M(P(bitsv));
    }
    static void read(const M& m, uint64_t* b, unsigned* noncanon) {
        uint64_t bitsv = (uint64_t)static_cast<P>(m);
        for (unsigned i = 0; i < M::width; ++i) b[i] = (bitsv >> i) & 1;
        if (M::width < 64 && (bitsv >> M::width) && noncanon) ++*noncanon;
    }
};
template<class M, class P> struct mask_io<M, P, 2> {  // full-width lane mask
    static const unsigned lane_bytes = sizeof(P) / M::width;
    static M make(const uint64_t* b) {
        unsigned char raw[sizeof(P)];
        for (unsigned i = 0; i < M::width; ++i) std::memset(raw + i * lane_bytes, (b[i] & 1) ? 0xFF : 0x00, lane_bytes);
        P p;
        std::memcpy(&p, raw, sizeof(P));
        return M(p);
    }
    static void read(const M& m, uint64_t* b, unsigned* noncanon) {
        P p = static_cast<P>(m);
        unsigned char raw[sizeof(P)];
        std::memcpy(raw, &p, sizeof(P));
        for (unsigned i = 0; i < M::width; ++i) {
            bool all1 = true, all0 = true;
            for (unsigned k = 0; k < lane_bytes; ++k) {
                if (raw[i * lane_bytes + k] != 0xFF) all1 = false;
                if (raw[i * lane_bytes + k] != 0x00) all0 = false;
            }
            b[i] = (raw[i * lane_bytes + lane_bytes - 1] >> 7) & 1;
            if (!all1 && !all0 && noncanon) ++*noncanon;
        }
    }
};
template<class M> inline M mkmask(const uint64_t* b) { return mask_io<M>::make(b); }
template<class M> inline void rdmask(const M& m, uint64_t* b, unsigned* noncanon = 0) { mask_io<M>::read(m, b, noncanon); }

// compile-time index dispatch: call F::template at<I>(args...) for run-time i < N
template<unsigned N, unsigned I = 0> struct dispatch {
    template<class F, class... A> static void go(unsigned i, F& f, A&... a) {
        if (i == I) f.template at<I>(a...);
        else dispatch<N, I + 1>::go(i, f, a...);
    }
};
template<unsigned N> struct dispatch<N, N> {
    template<class F, class... A> static void go(unsigned, F&, A&...) {}
};

// read every lane through the compile-time extract<I> API
template<class X, unsigned I, unsigned N> struct extract_all_impl {
    static void go(const X& x, uint64_t* b) {
        auto e = avel::extract<I>(x);
        b[I] = elem<decltype(e)>::to_bits(e);
        extract_all_impl<X, I + 1, N>::go(x, b);
    }
};
template<class X, unsigned N> struct extract_all_impl<X, N, N> { static void go(const X&, uint64_t*) {} };
template<class X> inline void extract_all(const X& x, uint64_t* b) { extract_all_impl<X, 0, X::width>::go(x, b); }

// In unoptimised builds (-O0) _mm_undefined_*() and other uninitialised locals really read stale stack memory. Checks call this right
// before the AVEL operation so that the memory its frame will occupy holds a Case-dependent pattern (all-ones = NaN / -1 on even k,
// a varying byte on odd k); in optimised builds it compiles to nothing.
#ifndef __OPTIMIZE__
__attribute__((noinline)) inline void poison_below(uint64_t k) {
    unsigned char buf[8192];
    std::memset(buf, (k & 1) ? (unsigned char)(0x31 + k * 29) : 0xFF, sizeof buf);
    asm volatile("" :: "r"(buf) : "memory");
}
#else
inline void poison_below(uint64_t) {}
#endif

// ---- outcome helpers ----
inline void fail(VpOutcome* o, int lane, const char* tag, const char* fmt, ...) __attribute__((format(printf, 4, 5)));
inline void fail(VpOutcome* o, int lane, const char* tag, const char* fmt, ...) {
    if (o->status == 1) return;  // keep the first
    o->status = 1;
    o->bad_lane = lane;
    std::snprintf(o->tag, sizeof o->tag, "%s", tag);
    va_list ap;
    va_start(ap, fmt);
    std::vsnprintf(o->msg, sizeof o->msg, fmt, ap);
    va_end(ap);
}

// compare lane arrays; `cmpmask[i]==0` lanes are skipped
inline bool cmp_lanes(VpOutcome* o, unsigned width, const uint64_t* expect, const uint64_t* actual,
                      const uint8_t* compare, const char* tag, const char* what) {
    bool ok = true;
    for (unsigned i = 0; i < width; ++i) {
        o->expect[i] = expect[i];
        o->actual[i] = actual[i];
    }
    for (unsigned i = 0; i < width; ++i) {
        if (compare && !compare[i]) continue;
        ++o->lanes_compared;
        if (expect[i] != actual[i] && ok) {
            ok = false;
            fail(o, (int)i, tag, "%s: lane %u expected 0x%llx got 0x%llx", what, i,
                 (unsigned long long)expect[i], (unsigned long long)actual[i]);
        }
    }
    return ok;
}

// ---- masks through their producers and consumers ----
// A mask is only as good as what its consumers make of it: a lane mask whose lane is neither all-ones nor zero reads correctly through
// extract/count/any (they look at one bit) and still corrupts keep/clear/blend. mask_consumers_ok() feeds a produced mask to keep, clear
// and blend with an all-ones and a patterned vector and requires whole lanes to move.
template<class V> inline bool mask_consumers_ok(const typename V::mask& m, const uint64_t* truth, VpOutcome* o, const char* producer) {
    typedef typename V::scalar T;
    const unsigned W = V::width; const uint64_t em = elem<T>::mask();
    uint64_t ones[VP_MAXL], pat[VP_MAXL], zero[VP_MAXL], e[VP_MAXL], g[VP_MAXL];
    for (unsigned i = 0; i < W; ++i) { ones[i] = em; pat[i] = (0x0123456789ABCDEFull * (2 * i + 1) + 0x8000000080008081ull) & em; zero[i] = 0; }
    const V vo = mk<V>(ones), vp_ = mk<V>(pat), vz = mk<V>(zero);
    char tag[96];
    for (unsigned i = 0; i < W; ++i) e[i] = truth[i] ? em : 0;
    rd<V>(avel::keep(m, vo), g); std::snprintf(tag, sizeof tag, "mask_from_%s:keep", producer);
    if (!cmp_lanes(o, W, e, g, nullptr, tag, "keep(m, all-ones) with a mask produced by the operation")) return false;
    rd<V>(avel::blend(m, vo, vz), g); std::snprintf(tag, sizeof tag, "mask_from_%s:blend", producer);
    if (!cmp_lanes(o, W, e, g, nullptr, tag, "blend(m, all-ones, 0) with a mask produced by the operation")) return false;
    for (unsigned i = 0; i < W; ++i) e[i] = truth[i] ? 0 : pat[i];
    rd<V>(avel::clear(m, vp_), g); std::snprintf(tag, sizeof tag, "mask_from_%s:clear", producer);
    if (!cmp_lanes(o, W, e, g, nullptr, tag, "clear(m, pattern) with a mask produced by the operation")) return false;
    return true;
}
// the same truth values turned into a mask by different producers (0 primitive, 1 comparison, 2 std::array<bool>, 3 insert<I> chain on
// Mask(false), 4 insert<I>(.., false) chain on Mask(true), 5 Mask(vector) with only the top bit / only the lowest bit set in the true lanes)
template<class M, unsigned I, unsigned N> struct insert_chain { static void go(M& m, const uint64_t* t, bool set) { if ((t[I] != 0) == set) m = avel::insert<I>(m, set); insert_chain<M, I + 1, N>::go(m, t, set); } };
template<class M, unsigned N> struct insert_chain<M, N, N> { static void go(M&, const uint64_t*, bool) {} };
enum { VP_MASK_PRODUCERS = 7 };
// producer 6: the sign test of the type (signbit for floating point, v < 0 for signed integers, v > half for unsigned ones) on lanes whose lower half
// carries bits that disagree with the sign
template<class V, int K = std::is_floating_point<typename V::scalar>::value ? 2 : (std::is_signed<typename V::scalar>::value ? 1 : 0)> struct sign_producer;
template<class V> struct sign_producer<V, 2> { static typename V::mask go(const V& v, const V&) { return avel::signbit(v); } };
template<class V> struct sign_producer<V, 1> { static typename V::mask go(const V& v, const V& z) { return v < z; } };
template<class V> struct sign_producer<V, 0> { static typename V::mask go(const V& v, const V& z) { return v > z; } };
template<class V> inline typename V::mask mask_via(unsigned producer, const uint64_t* truth) {
    typedef typename V::scalar T; typedef typename V::mask M;
    const unsigned W = V::width;
    switch (producer % VP_MASK_PRODUCERS) {
    case 1: { uint64_t x[VP_MAXL], z[VP_MAXL]; for (unsigned i = 0; i < W; ++i) { x[i] = truth[i] ? elem<T>::to_bits(T(3)) : 0; z[i] = 0; } return mk<V>(x) != mk<V>(z); }
    case 2: { std::array<bool, V::width> arr; for (unsigned i = 0; i < W; ++i) arr[i] = truth[i] != 0; return M(arr); }
    case 3: { M m(false); insert_chain<M, 0, V::width>::go(m, truth, true); return m; }
    case 4: { M m(true); insert_chain<M, 0, V::width>::go(m, truth, false); return m; }
    case 5: { uint64_t x[VP_MAXL]; for (unsigned i = 0; i < W; ++i) x[i] = truth[i] ? (std::is_floating_point<T>::value ? elem<T>::to_bits(T(-2)) : ((i & 1) ? uint64_t(1) : (uint64_t(1) << (elem<T>::bits - 1)))) : 0; return M(mk<V>(x)); }
    case 6: {
        const unsigned B = elem<T>::bits; const uint64_t top = uint64_t(1) << (B - 1), halfbit = uint64_t(1) << (B / 2 - 1);
        uint64_t x[VP_MAXL], z[VP_MAXL];
        for (unsigned i = 0; i < W; ++i) {
            // true lanes: top bit set, the top bit of the lower half clear; false lanes the other way round; a few more low bits set either way
            const uint64_t body = std::is_floating_point<T>::value ? (elem<T>::to_bits(T(1)) | 1) : 1;
            x[i] = truth[i] ? ((top | body) & ~halfbit) : ((body | halfbit) & ~top);
            z[i] = std::is_floating_point<T>::value || std::is_signed<T>::value ? 0 : (top - 1);       // unsigned: v > 2^(B-1)-1
        }
        return sign_producer<V>::go(mk<V>(x), mk<V>(z));
    }
    default: return mkmask<M>(truth);
    }
}

}  // namespace vp

// ---- type lists (X-macros), conditional on what the configuration provides ----
#define VP_INT_1(X) X(vec1x8u) X(vec1x8i) X(vec1x16u) X(vec1x16i) X(vec1x32u) X(vec1x32i) X(vec1x64u) X(vec1x64i)
#define VP_FLT_1(X) X(vec1x32f) X(vec1x64f)
#if defined(AVEL_SSE2)
#define VP_INT_128(X) X(vec16x8u) X(vec16x8i) X(vec8x16u) X(vec8x16i) X(vec4x32u) X(vec4x32i) X(vec2x64u) X(vec2x64i)
#define VP_FLT_128(X) X(vec4x32f) X(vec2x64f)
#else
#define VP_INT_128(X)
#define VP_FLT_128(X)
#endif
#if defined(AVEL_AVX2)
#define VP_INT_256(X) X(vec32x8u) X(vec32x8i) X(vec16x16u) X(vec16x16i) X(vec8x32u) X(vec8x32i) X(vec4x64u) X(vec4x64i)
#define VP_FLT_256(X) X(vec8x32f) X(vec4x64f)
#else
#define VP_INT_256(X)
#define VP_FLT_256(X)
#endif
#if defined(AVEL_AVX512F)
#define VP_INT_512(X) X(vec16x32u) X(vec16x32i) X(vec8x64u) X(vec8x64i)
#define VP_FLT_512(X) X(vec16x32f) X(vec8x64f)
#else
#define VP_INT_512(X)
#define VP_FLT_512(X)
#endif
#if defined(AVEL_AVX512BW)
#define VP_INT_512BW(X) X(vec64x8u) X(vec64x8i) X(vec32x16u) X(vec32x16i)
#else
#define VP_INT_512BW(X)
#endif
#define VP_INT_VECS(X) VP_INT_1(X) VP_INT_128(X) VP_INT_256(X) VP_INT_512(X) VP_INT_512BW(X)
#define VP_FLT_VECS(X) VP_FLT_1(X) VP_FLT_128(X) VP_FLT_256(X) VP_FLT_512(X)
#define VP_ALL_VECS(X) VP_INT_VECS(X) VP_FLT_VECS(X)

// Fixed target table: all 40 vector types in a fixed order so that target indices are the same in
// every configuration (a Case is configuration independent).
#define VP_TARGET_TABLE(X) \
    X(vec1x8u, 1, 8, 0) X(vec1x8i, 1, 8, 1) X(vec1x16u, 1, 16, 0) X(vec1x16i, 1, 16, 1) \
    X(vec1x32u, 1, 32, 0) X(vec1x32i, 1, 32, 1) X(vec1x64u, 1, 64, 0) X(vec1x64i, 1, 64, 1) \
    X(vec1x32f, 1, 32, 2) X(vec1x64f, 1, 64, 2) \
    X(vec16x8u, 16, 8, 0) X(vec16x8i, 16, 8, 1) X(vec8x16u, 8, 16, 0) X(vec8x16i, 8, 16, 1) \
    X(vec4x32u, 4, 32, 0) X(vec4x32i, 4, 32, 1) X(vec2x64u, 2, 64, 0) X(vec2x64i, 2, 64, 1) \
    X(vec4x32f, 4, 32, 2) X(vec2x64f, 2, 64, 2) \
    X(vec32x8u, 32, 8, 0) X(vec32x8i, 32, 8, 1) X(vec16x16u, 16, 16, 0) X(vec16x16i, 16, 16, 1) \
    X(vec8x32u, 8, 32, 0) X(vec8x32i, 8, 32, 1) X(vec4x64u, 4, 64, 0) X(vec4x64i, 4, 64, 1) \
    X(vec8x32f, 8, 32, 2) X(vec4x64f, 4, 64, 2) \
    X(vec64x8u, 64, 8, 0) X(vec64x8i, 64, 8, 1) X(vec32x16u, 32, 16, 0) X(vec32x16i, 32, 16, 1) \
    X(vec16x32u, 16, 32, 0) X(vec16x32i, 16, 32, 1) X(vec8x64u, 8, 64, 0) X(vec8x64i, 8, 64, 1) \
    X(vec16x32f, 16, 32, 2) X(vec8x64f, 8, 64, 2)

namespace vp {
enum TargetId {
#define X(n, w, b, c) T_##n,
    VP_TARGET_TABLE(X)
#undef X
    T_COUNT
};
inline bool target_present(unsigned t) {
    if (t < 10) return true;
    if (t < 20) {
#if defined(AVEL_SSE2)
        return true;
#else
        return false;
#endif
    }
    if (t < 30) {
#if defined(AVEL_AVX2)
        return true;
#else
        return false;
#endif
    }
    if (t < 34) {
#if defined(AVEL_AVX512BW)
        return true;
#else
        return false;
#endif
    }
#if defined(AVEL_AVX512F)
    return true;
#else
    return false;
#endif
}
}  // namespace vp

// Standard target table definition for checks over the 40 vector types. `FILTER(cls)` says which
// element classes the property covers.
#define VP_DEFINE_VECTOR_TARGETS(FILTER)                                                   \
    extern "C" const VpTarget* vp_targets(uint32_t* n) {                                   \
        static VpTarget t[vp::T_COUNT];                                                    \
        static bool init = false;                                                          \
        if (!init) {                                                                       \
            unsigned i = 0;                                                                \
            VP_TARGET_TABLE(VP__TGT_ROW)                                                   \
            for (unsigned k = 0; k < vp::T_COUNT; ++k)                                     \
                t[k].present = vp::target_present(k) && (FILTER(t[k].cls));                \
            init = true;                                                                   \
        }                                                                                  \
        *n = vp::T_COUNT;                                                                  \
        return t;                                                                          \
    }
#define VP__TGT_ROW(nm, w, b, c) t[i].name = #nm; t[i].width = w; t[i].bits = b; t[i].cls = c; ++i;

#endif  // VP_CHECK_OBJECT
#endif
