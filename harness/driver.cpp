// Generic driver: owns every generator (rapidcheck), the enumerator callback, accounting, the
// harness-owned minimiser, known-finding matching, replay and the JSON result.  Linked against one
// per-configuration check object through the C ABI in vp.hpp.
#include "vp.hpp"
#include "lattice.hpp"

#include <rapidcheck.h>
#include <rapidcheck/detail/Configuration.h>

#include <algorithm>
#include <climits>
#include <cmath>
#include <fnmatch.h>
#include <map>
#include <set>
#include <string>
#include <unordered_set>
#include <vector>
#include <fstream>
#include <sstream>
#include <iostream>

// ------------------------------------------------------------------------------------------------
// globals
// ------------------------------------------------------------------------------------------------
static const VpTarget* g_targets; static uint32_t g_ntargets;
static const VpOp* g_ops; static uint32_t g_nops;
static const char* const* g_classes; static uint32_t g_nclasses;
static std::string g_config = "?";
static std::vector<std::string> g_known;       // globs over "target|op|tag"
static std::vector<std::string> g_known_text;

struct Failure { VpCase c; VpOutcome o; std::string sig; int confirmed; std::string phase; std::vector<VpCase> history; };
struct KnownHit { uint64_t count; VpCase example; VpOutcome o; std::string glob; };

static uint64_t g_evals, g_lanes, g_nontrivial, g_na, g_known_excluded;
static std::vector<uint64_t> g_class_counts;
static std::unordered_set<uint64_t> g_distinct; static bool g_saturated;
static const size_t DISTINCT_CAP = 1u << 22;
static std::map<std::string, uint64_t> g_per_target, g_per_op;
static std::vector<std::pair<VpCase, std::string> > g_samples;
static std::map<std::string, int> g_sample_per_key;
static std::vector<Failure> g_failures;
static std::map<std::string, KnownHit> g_known_hits;
static std::vector<std::string> g_domains;
static std::string g_phase = "?";
static uint64_t g_enum_stride = 1, g_enum_phase = 0, g_enum_counter = 0;
static std::map<std::string, uint64_t> g_digest;   // per (target/op): hash over the outputs of the deterministic phase
static uint64_t g_max_failures = 12;

static uint64_t hash_case(const VpCase& c) {
    const unsigned char* p = (const unsigned char*)&c;
    uint64_t h = 1469598103934665603ull;
    const uint64_t* w = (const uint64_t*)p;
    for (size_t i = 0; i < sizeof(VpCase) / 8; ++i) { h ^= w[i]; h *= 1099511628211ull; h ^= h >> 29; }
    return h;
}

static std::string sig_of(const VpCase& c, const VpOutcome& o) {
    std::string s = c.target < g_ntargets ? g_targets[c.target].name : "?";
    s += "|"; s += c.op < g_nops ? g_ops[c.op].name : "?";
    s += "|"; s += o.tag;
    return s;
}

static int known_index(const std::string& sig) {
    for (size_t i = 0; i < g_known.size(); ++i)
        if (fnmatch(g_known[i].c_str(), sig.c_str(), 0) == 0) return (int)i;
    return -1;
}

// ---- faults as observations: a signal raised inside a Case (SIGSEGV/SIGBUS/SIGFPE/SIGILL/SIGTRAP; UBSan
// is built in trap mode, so undefined behaviour arrives here as SIGILL) becomes an outcome of that
// Case.  A fatal ASan error dumps the current Case before the process dies.
#include <csignal>
#include <xmmintrin.h>
#include <csetjmp>
#include <ucontext.h>
#include <unistd.h>
#include <sys/time.h>
static bool g_ub_is_violation = false;
static std::map<std::string, uint64_t> g_ub_reports;
static std::string g_out_path;
static VpCase g_current; static volatile sig_atomic_t g_in_run = 0;
static sigjmp_buf g_jmp; static volatile int g_sig; static volatile uintptr_t g_sig_pc, g_sig_addr;
static std::string case_text(const VpCase& c);
// watchdog on process CPU time (ITIMER_VIRTUAL, so machine load cannot trigger it): a Case that is still the current one after
// two consecutive ticks (10-20 s of CPU for an operation that takes microseconds) has not returned
static volatile uint64_t g_case_serial = 0, g_tick_serial = ~0ull;
static void on_tick(int) {
    if (g_in_run && g_case_serial == g_tick_serial) { g_sig = SIGVTALRM; g_sig_pc = 0; g_sig_addr = 0; siglongjmp(g_jmp, 1); }
    g_tick_serial = g_case_serial;
}
static void on_signal(int sig, siginfo_t* si, void* uc) {
    if (!g_in_run) { signal(sig, SIG_DFL); raise(sig); return; }
    g_sig = sig;
    g_sig_addr = (uintptr_t)si->si_addr;
    g_sig_pc = (uintptr_t)((ucontext_t*)uc)->uc_mcontext.gregs[REG_RIP];
    siglongjmp(g_jmp, 1);
}
#ifdef VP_SAN
extern "C" void __sanitizer_set_death_callback(void (*)(void));
static void on_death() {
    if (!g_in_run || g_out_path.empty()) return;
    std::string p = g_out_path + ".crash";
    FILE* f = fopen(p.c_str(), "w");
    if (f) { fprintf(f, "%s\n", case_text(g_current).c_str()); fclose(f); }
}
#endif
static void san_init() {
    struct sigaction sa; std::memset(&sa, 0, sizeof sa);
    sa.sa_sigaction = on_signal; sa.sa_flags = SA_SIGINFO | SA_NODEFER | SA_ONSTACK;
    static char altstack[1 << 16];
    stack_t ss; ss.ss_sp = altstack; ss.ss_size = sizeof altstack; ss.ss_flags = 0; sigaltstack(&ss, nullptr);
    for (int sg : {SIGSEGV, SIGBUS, SIGFPE, SIGILL, SIGTRAP}) sigaction(sg, &sa, nullptr);
    struct sigaction st; std::memset(&st, 0, sizeof st); st.sa_handler = on_tick; st.sa_flags = SA_NODEFER | SA_ONSTACK; sigaction(SIGVTALRM, &st, nullptr);
    struct itimerval iv; iv.it_interval.tv_sec = 10; iv.it_interval.tv_usec = 0; iv.it_value = iv.it_interval; setitimer(ITIMER_VIRTUAL, &iv, nullptr);
#ifdef VP_SAN
    __sanitizer_set_death_callback(on_death);
#endif
}
static const char* signame(int s) { return s == SIGSEGV ? "SIGSEGV" : s == SIGBUS ? "SIGBUS" : s == SIGFPE ? "SIGFPE" : s == SIGILL ? "SIGILL" : s == SIGTRAP ? "SIGTRAP" : "SIG?"; }

// Dirty the stack region the next call will use, with a Case-dependent pattern (all-ones bytes = NaN / -1 on even Cases, mixed bytes on
// odd ones): uninitialised reads inside the code under test (e.g. _mm_undefined_*() at -O0) then yield pattern-dependent values.
static uint64_t g_poison_every = 4;
__attribute__((noinline)) static void poison_stack(uint64_t k) {
    unsigned char buf[49152];     // deeper than the frames of the check functions, which hold several KiB of lane arrays
    std::memset(buf, (k & 2) ? (unsigned char)(0x5B + k * 37) : 0xFF, sizeof buf);
    asm volatile("" :: "r"(buf) : "memory");
}

static unsigned g_env_int = 0, g_env_flt = 0;   // --env-fuzz I,F: bit 0 rounding mode, bit 1 FTZ, bit 2 DAZ (integer/mask targets, float targets)
static uint64_t g_env_fuzzed = 0;
static void run_raw(const VpCase& c, VpOutcome& o) {
    std::memset(&o, 0, sizeof o);
    o.bad_lane = -1;
    if (c.target >= g_ntargets || c.op >= g_nops || !g_targets[c.target].present) { o.status = 2; return; }
    g_current = c; ++g_case_serial;
    // every Case starts from the default floating-point environment (a Case that leaves it changed is C11's business
    // and is detected inside the check; it must not leak into the next Case)
    // ... unless the property's results must not depend on it (--env-fuzz): then half of the Cases run under a rounding mode / FTZ / DAZ
    // setting derived from the Case itself (so that a replay sees the same one), SSE and x87 alike
    uint32_t csr = 0x1F80; uint16_t cw = 0x037F;
    {
        const unsigned allow = g_targets[c.target].cls == 2 ? g_env_flt : g_env_int;
        if (allow) {
            const uint64_t h = hash_case(c);
            if (h & 8) {
                if (allow & 1) { csr |= (uint32_t)((h >> 4) & 3) << 13; cw |= (uint16_t)(((h >> 4) & 3) << 10); }
                if (allow & 2) csr |= (uint32_t)((h >> 6) & 1) << 15;
                if (allow & 4) csr |= (uint32_t)((h >> 7) & 1) << 6;
            }
        }
    }
    _mm_setcsr(csr);
    __asm__ volatile("fldcw %0" : : "m"(cw));
    if ((g_case_serial % g_poison_every) == 0) poison_stack(g_case_serial / g_poison_every);
    if (sigsetjmp(g_jmp, 1) == 0) {
        g_in_run = 1;
        vp_run(&c, &o);
        g_in_run = 0;
        if (csr != 0x1F80) { _mm_setcsr(0x1F80); cw = 0x037F; __asm__ volatile("fldcw %0" : : "m"(cw)); if (o.status == 0) ++g_env_fuzzed; }
    } else {
        g_in_run = 0;
        _mm_setcsr(0x1F80); cw = 0x037F; __asm__ volatile("fldcw %0" : : "m"(cw));
        // the check may have declared, before calling AVEL, that a trap at this point is allowed
        // (o.tag starts with "trap-ok")
        if (g_sig == SIGVTALRM) {
            o.status = 1; o.bad_lane = -1; std::snprintf(o.tag, sizeof o.tag, "no_return:cpu_time_watchdog");
            std::snprintf(o.msg, sizeof o.msg, "the operation had not returned after 10-20 s of CPU time");
            return;
        }
        bool ub = (g_sig == SIGILL || g_sig == SIGTRAP);
        char where[96]; std::snprintf(where, sizeof where, "pc=0x%lx addr=0x%lx", (unsigned long)g_sig_pc, (unsigned long)g_sig_addr);
        if (std::strncmp(o.tag, "trap-ok", 7) == 0) { o.status = 0; o.tag[0] = 0; return; }
        if (ub) {
            char k[64]; std::snprintf(k, sizeof k, "trap pc=0x%lx", (unsigned long)g_sig_pc);
            ++g_ub_reports[k];
            if (!g_ub_is_violation) { o.status = 0; o.tag[0] = 0; o.msg[0] = 0; return; }
        }
        o.status = 1; o.bad_lane = -1;
        std::snprintf(o.tag, sizeof o.tag, "%s%s", ub ? "ub-trap:" : "signal:", signame(g_sig));
        std::snprintf(o.msg, sizeof o.msg, "%s raised inside the operation (%s)%s", signame(g_sig), where, ub ? " - undefined behaviour trapped by -fsanitize=undefined" : "");
    }
}

// ------------------------------------------------------------------------------------------------
// harness-owned minimiser: greedy passes over the Case, keeping a change only if the same failure
// signature persists.
// ------------------------------------------------------------------------------------------------
static bool still_fails(const VpCase& c, const std::string& sig, VpOutcome& o) {
    run_raw(c, o);
    return o.status == 1 && sig_of(c, o) == sig;
}

static void minimise(VpCase& c, VpOutcome& o, const std::string& sig) {
    const VpTarget& T = g_targets[c.target];
    const VpOp& O = g_ops[c.op];
    unsigned budget = 6000;
    bool is_cmds = false;
    for (int k = 0; k < VP_NOPER; ++k) if (O.vk[k] == VK_CMDS) is_cmds = true;
    VpOutcome t;
    if (is_cmds) {
        // drop commands one at a time (from the end), then zero bits of words
        int64_t& len = c.s[3];
        uint64_t* w = &c.v[0][0];
        bool progress = true;
        while (progress && budget) {
            progress = false;
            for (int64_t i = len - 1; i >= 0 && budget; --i) {
                VpCase d = c;
                uint64_t* dw = &d.v[0][0];
                for (int64_t j = i; j + 1 < len; ++j) dw[j] = dw[j + 1];
                dw[len - 1] = 0; d.s[3] = len - 1; --budget;
                if (still_fails(d, sig, t)) { c = d; o = t; progress = true; }
            }
        }
        for (int64_t i = 0; i < len && budget; ++i)
            for (int b = 63; b >= 0 && budget; --b) {
                if (!((w[i] >> b) & 1)) continue;
                VpCase d = c; (&d.v[0][0])[i] &= ~(uint64_t(1) << b); --budget;
                if (still_fails(d, sig, t)) { c = d; o = t; }
            }
    } else {
        int bad = o.bad_lane;
        // 1. zero every other lane (all operands at once, then individually)
        for (unsigned i = 0; i < T.width && budget; ++i) {
            if ((int)i == bad) continue;
            VpCase d = c;
            for (int k = 0; k < VP_NOPER; ++k) d.v[k][i] = 0;
            --budget;
            if (still_fails(d, sig, t) ) { c = d; o = t; bad = o.bad_lane; }
        }
        // 2. scalars: try 0, then halve towards 0, then decrement
        for (int k = 0; k < VP_NSCAL && budget; ++k) {
            if (O.sk[k] == SK_NONE) continue;
            for (int pass = 0; pass < 64 && budget; ++pass) {
                int64_t cur = c.s[k]; if (cur == 0) break;
                int64_t cands[3] = {0, cur / 2, cur > 0 ? cur - 1 : cur + 1};
                bool moved = false;
                for (int q = 0; q < 3 && !moved; ++q) {
                    if (cands[q] == cur) continue;
                    VpCase d = c; d.s[k] = cands[q]; --budget;
                    if (still_fails(d, sig, t)) { c = d; o = t; moved = true; }
                }
                if (!moved) break;
            }
        }
        // 3. clear set bits in the remaining non-zero lanes (failing lane first)
        for (unsigned i = 0; i < T.width && budget; ++i)
            for (int k = 0; k < VP_NOPER && budget; ++k) {
                if (O.vk[k] == VK_NONE) continue;
                for (int b = 63; b >= 0 && budget; --b) {
                    if (!((c.v[k][i] >> b) & 1)) continue;
                    VpCase d = c; d.v[k][i] &= ~(uint64_t(1) << b); --budget;
                    if (still_fails(d, sig, t)) { c = d; o = t; }
                }
            }
    }
    run_raw(c, o);
}

// ------------------------------------------------------------------------------------------------
// accounting
// ------------------------------------------------------------------------------------------------
static void add_sample(const VpCase& c, const VpOutcome& o) {
    std::string key = std::string(g_targets[c.target].name) + "/" + g_ops[c.op].name;
    if (g_samples.size() >= 24) return;
    int& n = g_sample_per_key[key];
    if (n >= 1) return;
    // spread the samples: take at most one per (target, op) and only every few keys
    if ((g_sample_per_key.size() % 7) != 1 && g_samples.size() >= 4) { n = 1; return; }
    ++n;
    g_samples.push_back(std::make_pair(c, g_phase));
}

static void finish_now();
// the Cases executed just before the current one: the history replayed when a failure does not reproduce on its own
// (state carried from one call to the next: a function-local static, a cache, a register or flag left behind)
enum { RECENT_CAP = 32 };
static VpCase g_recent[RECENT_CAP]; static uint64_t g_recent_n = 0;
static std::vector<VpCase> recent_snapshot() {
    std::vector<VpCase> h; const uint64_t n = g_recent_n < RECENT_CAP ? g_recent_n : RECENT_CAP;
    for (uint64_t i = g_recent_n - n; i < g_recent_n; ++i) h.push_back(g_recent[i % RECENT_CAP]);
    return h;
}
static bool fails_after(const std::vector<VpCase>& h, size_t from, const VpCase& c, const std::string& sig, VpOutcome& out) {
    for (size_t i = from; i < h.size(); ++i) { VpOutcome t; run_raw(h[i], t); }
    run_raw(c, out);
    return out.status == 1 && sig_of(c, out) == sig;
}
static bool account_inner(const VpCase& c, bool allow_minimise);
// returns true if the case is acceptable (pass, n/a or known finding)
static bool account(const VpCase& c, bool allow_minimise = true) {
    const bool r = account_inner(c, allow_minimise);
    g_recent[g_recent_n++ % RECENT_CAP] = c;
    return r;
}
static bool account_inner(const VpCase& c, bool allow_minimise) {
    VpOutcome o;
    run_raw(c, o);
    if (o.status == 2) { ++g_na; return true; }
    ++g_evals;
    g_lanes += o.lanes_compared;
    for (uint32_t k = 0; k < g_nclasses && k < 32; ++k) if (o.classes & (1u << k)) ++g_class_counts[k];
    ++g_per_target[g_targets[c.target].name];
    ++g_per_op[g_ops[c.op].name];
    if (o.nontrivial) {
        ++g_nontrivial;
        if (!g_saturated) {
            g_distinct.insert(hash_case(c));
            if (g_distinct.size() >= DISTINCT_CAP) g_saturated = true;
        }
        add_sample(c, o);
    }
    if (g_phase == "enum" && g_enum_stride == 1) {     // a thinned enumeration visits other Cases: no digest
        // digest of (inputs, actual outputs) for the cross-configuration differential
        uint64_t& d = g_digest[std::string(g_targets[c.target].name) + "/" + g_ops[c.op].name];
        uint64_t h = hash_case(c);
        for (unsigned i = 0; i < g_targets[c.target].width; ++i) { h ^= o.actual[i] + 0x9E3779B97F4A7C15ull + (h << 6) + (h >> 2); }
        d = (d ^ h) * 1099511628211ull + 1;
    }
    if (o.status == 0) return true;
    std::string sig = sig_of(c, o);
    int ki = known_index(sig);
    if (ki >= 0) {
        ++g_known_excluded;
        KnownHit& h = g_known_hits[g_known[ki]];
        if (h.count == 0) { h.example = c; h.o = o; h.glob = g_known[ki]; }
        ++h.count;
        return true;
    }
    // new failure: minimise, confirm 3x, dedupe by signature
    for (size_t i = 0; i < g_failures.size(); ++i)
        if (g_failures[i].sig == sig) return false;
    if (g_failures.size() >= g_max_failures) return false;
    Failure f; f.c = c; f.o = o; f.sig = sig; f.phase = g_phase;
    const bool hang = std::strncmp(o.tag, "no_return", 9) == 0;     // every re-execution of a hanging Case costs 10-20 s of CPU: no minimisation, one confirmation
    // a failure that needs a particular interleaving of two threads (tag concurrent_*): one observation is conclusive (the second thread is the only
    // legitimate writer of the bytes it watches) and a re-execution need not hit the same interleaving: no minimisation, no confirmation runs
    const bool sched = std::strncmp(o.tag, "concurrent_", 11) == 0;
    if (allow_minimise && !hang && !sched) minimise(f.c, f.o, sig);
    f.confirmed = 0;
    if (sched) f.confirmed = 3;
    else if (hang) { VpOutcome t; run_raw(f.c, t); f.confirmed = (t.status == 1) ? 3 : 0; }
    else for (int r = 0; r < 3; ++r) { VpOutcome t; run_raw(f.c, t); if (t.status == 1) ++f.confirmed; }
    if (!sched && !hang && f.confirmed < 3 && g_recent_n) {
        // not reproducible on its own: replay the Cases that preceded it (twice); the shortest suffix of that history after which the
        // original Case fails again becomes part of the replay file
        const std::vector<VpCase> h = recent_snapshot();
        VpOutcome t;
        if (fails_after(h, 0, c, sig, t) && fails_after(h, 0, c, sig, t)) {
            size_t from = 0;
            for (size_t len = 1; len < h.size(); len *= 2) { VpOutcome u; if (fails_after(h, h.size() - len, c, sig, u) && fails_after(h, h.size() - len, c, sig, u)) { from = h.size() - len; break; } }
            f.c = c; f.o = t; f.confirmed = 3; f.history.assign(h.begin() + from, h.end()); f.phase = g_phase + "+history";
        }
    }
    g_failures.push_back(f);
    if (hang) finish_now();     // every further hanging Case would cost another 10-20 s: report what was found and stop this process
    return false;
}

static void emit_cb(const VpCase* c, void*) { if (g_enum_stride > 1 && (g_enum_counter++ % g_enum_stride) != g_enum_phase) return; account(*c); }
static std::string g_mode_name; static uint64_t g_seed_value;
static void write_json(const std::string& path, const std::string& mode, uint64_t seed, double wall);
static void finish_now() { write_json(g_out_path, g_mode_name, g_seed_value, 0.0); fflush(nullptr); _exit(1); }

// ------------------------------------------------------------------------------------------------
// value lattices
// ------------------------------------------------------------------------------------------------
using vpl::maskw; using vpl::int_lattice; using vpl::flt_lattice;
static const std::vector<uint64_t>& ilat(unsigned w) {
    static std::map<unsigned, std::vector<uint64_t> > m;
    auto it = m.find(w); if (it == m.end()) it = m.insert(std::make_pair(w, int_lattice(w))).first;
    return it->second;
}
static const std::vector<uint64_t>& flat(unsigned w) {
    static std::map<unsigned, std::vector<uint64_t> > m;
    auto it = m.find(w); if (it == m.end()) it = m.insert(std::make_pair(w, flt_lattice(w))).first;
    return it->second;
}

// ------------------------------------------------------------------------------------------------
// rapidcheck generators (all randomness lives here)
// ------------------------------------------------------------------------------------------------
using rc::Gen;
namespace gen = rc::gen;

template<class T> static Gen<T> full(Gen<T> g) { return gen::resize(100, std::move(g)); }
static Gen<uint64_t> U64() { return full(gen::arbitrary<uint64_t>()); }
static Gen<int64_t> R(int64_t lo, int64_t hi) { return full(gen::inRange<int64_t>(lo, hi)); }  // [lo, hi)

static Gen<uint64_t> gInt(unsigned w) {
    const std::vector<uint64_t>& L = ilat(w);
    uint64_t m = maskw(w);
    return gen::weightedOneOf<uint64_t>({
        {4, full(gen::elementOf(L))},
        {2, gen::apply([m](uint64_t a, int64_t d) { return (a + (uint64_t)d) & m; }, full(gen::elementOf(L)), R(-3, 4))},
        {1, gen::apply([m, w](uint64_t hi, uint64_t lo) { return ((hi << (w / 2)) | (lo & maskw(w / 2))) & m; }, U64(), full(gen::elementOf(ilat(w / 2 < 8 ? 8 : w / 2))))},
        {1, gen::apply([m, w](uint64_t hi, uint64_t lo) { return ((hi << (w / 2)) | (lo & maskw(w / 2))) & m; }, full(gen::elementOf(ilat(w / 2 < 8 ? 8 : w / 2))), U64())},
        {3, gen::map(U64(), [m](uint64_t x) { return x & m; })},
        {1, gen::map(R(-130, 131), [m](int64_t x) { return (uint64_t)x & m; })},
    });
}

static Gen<uint64_t> gIntRel(unsigned w, uint64_t a) {
    uint64_t m = maskw(w);
    unsigned h = w / 2;
    return gen::weightedOneOf<uint64_t>({
        {6, gInt(w)},
        {2, gen::just(a)},
        {1, gen::just((a + 1) & m)}, {1, gen::just((a - 1) & m)},
        {2, gen::map(gInt(h < 8 ? 8 : h), [a, m, h](uint64_t lo) { return ((a & ~maskw(h)) | (lo & maskw(h))) & m; })},
        {1, gen::just((a ^ (uint64_t(1) << (w - 1))) & m)},
        {1, gen::just((a ^ (uint64_t(1) << (h - 1))) & m)},
        {1, gen::just((0 - a) & m)}, {1, gen::just((~a) & m)},
        {1, gen::just((a >> 1) & m)}, {1, gen::just((a << 1) & m)},
        {1, gen::map(R(0, 64), [a, m, w](int64_t b) { return (a ^ (uint64_t(1) << (b % w))) & m; })},
    });
}

static Gen<uint64_t> gFlt(unsigned w) {
    const std::vector<uint64_t>& L = flat(w);
    uint64_t m = maskw(w);
    const unsigned mb = (w == 32) ? 23 : 52;
    return gen::weightedOneOf<uint64_t>({
        {5, full(gen::elementOf(L))},
        {2, gen::map(U64(), [m](uint64_t x) { return x & m; })},
        {2, gen::apply([w](int64_t num, int64_t den, int64_t sc) {
                double d = (double)num / (double)(den ? den : 1) * std::ldexp(1.0, (int)sc);
                uint64_t b = 0;
                if (w == 32) { float f = (float)d; std::memcpy(&b, &f, 4); } else std::memcpy(&b, &d, 8);
                return b; }, R(-100000, 100001), R(1, 1000), R(-12, 30))},
        {1, gen::apply([w, mb, m](uint64_t base, int64_t d) { return (base + (uint64_t)d) & m; }, full(gen::elementOf(L)), R(-2, 3))},
        {1, gen::apply([w, mb, m](uint64_t e, uint64_t mant) { return ((e << mb) | (mant & maskw(mb))) & m; }, U64(), U64())},
    });
}

static Gen<uint64_t> gFltRel(unsigned w, uint64_t a) {
    uint64_t m = maskw(w);
    const unsigned mb = (w == 32) ? 23 : 52;
    return gen::weightedOneOf<uint64_t>({
        {6, gFlt(w)},
        {2, gen::just(a)},
        {1, gen::just((a + 1) & m)}, {1, gen::just((a - 1) & m)},
        {2, gen::just((a ^ (uint64_t(1) << (w - 1))) & m)},
        {1, gen::map(U64(), [a, m, mb](uint64_t x) { return ((a & ~maskw(mb)) | (x & maskw(mb))) & m; })},
        {1, gen::just((a + (uint64_t(1) << mb)) & m)},
    });
}

static void fill_lanes(uint64_t* out, unsigned width, const std::function<Gen<uint64_t>(unsigned)>& laneGen,
                       const Gen<uint64_t>& noise) {
    int mode = width == 1 ? 0 : (int)*R(0, 13);
    if (mode >= 10) {
        // blocks: runs of 2, 4, ... width/2 lanes share a value (pairs {a,a,b,b}, a uniform half next to a different half, a repeating
        // period): what a per-128-bit-half shuffle or a "are all lanes equal?" shortcut with a wrong width confuses
        unsigned nb = 0; for (unsigned b = 2; b < width; b *= 2) ++nb;
        if (nb == 0) { for (unsigned i = 0; i < width; ++i) out[i] = *laneGen(i); return; }
        const unsigned bs = 2u << (unsigned)*R(0, nb);
        const bool periodic = mode == 12;            // value depends on i % bs instead of i / bs
        uint64_t vals[64];
        for (unsigned i = 0; i < width; ++i) vals[i] = *laneGen(i);
        if (mode == 11) { uint64_t x = vals[0], y = vals[width - 1]; for (unsigned i = 0; i < width; ++i) out[i] = (i < bs) ? x : y; return; }   // first block uniform, rest another value
        for (unsigned i = 0; i < width; ++i) out[i] = periodic ? vals[i % bs] : vals[(i / bs) * bs];
    } else if (mode <= 5) {
        for (unsigned i = 0; i < width; ++i) out[i] = *laneGen(i);
    } else if (mode <= 7) {
        uint64_t x = *laneGen(0);
        for (unsigned i = 0; i < width; ++i) out[i] = x;
    } else {
        unsigned hot = (unsigned)*R(0, width);
        for (unsigned i = 0; i < width; ++i) out[i] = (i == hot) ? *laneGen(i) : *noise;
    }
}

static Gen<VpCase> genCase(uint32_t ti, uint32_t oi) {
    return gen::exec([ti, oi]() {
        const VpTarget& T = g_targets[ti];
        const VpOp& O = g_ops[oi];
        VpCase c;
        std::memset(&c, 0, sizeof c);
        c.target = ti; c.op = oi;
        const unsigned W = T.width, B = T.bits;
        for (int k = 0; k < VP_NOPER; ++k) {
            uint64_t* v = c.v[k];
            const uint64_t* prev = k ? c.v[k - 1] : nullptr;
            unsigned kind = O.vk[k];
            if (T.cls == 2 && kind == VK_INT) kind = VK_FLT;
            if (T.cls == 2 && kind == VK_INT_REL) kind = VK_FLT_REL;
            switch (kind) {
            case VK_INT:
                fill_lanes(v, W, [B](unsigned) { return gInt(B); }, gen::map(U64(), [B](uint64_t x) { return x & maskw(B); }));
                break;
            case VK_INT_REL:
                fill_lanes(v, W, [B, prev](unsigned i) { return gIntRel(B, prev ? prev[i] : 0); }, gen::map(U64(), [B](uint64_t x) { return x & maskw(B); }));
                break;
            case VK_FLT:
                fill_lanes(v, W, [B](unsigned) { return gFlt(B); }, gen::map(U64(), [B](uint64_t x) { return x & maskw(B); }));
                break;
            case VK_FLT_REL:
                fill_lanes(v, W, [B, prev](unsigned i) { return gFltRel(B, prev ? prev[i] : 0); }, gen::map(U64(), [B](uint64_t x) { return x & maskw(B); }));
                break;
            case VK_AMT: {
                int mode = (int)*R(0, 4);
                unsigned rot = (unsigned)*R(0, B + 1);
                for (unsigned i = 0; i < W; ++i) {
                    if (mode == 0) v[i] = (uint64_t)*gen::weightedOneOf<int64_t>({{3, R(0, B + 1)}, {1, gen::just<int64_t>(0)}, {1, gen::just<int64_t>(B)}, {1, gen::just<int64_t>(B - 1)}, {1, gen::just<int64_t>(B / 2)}});
                    else if (mode == 1) v[i] = (i + rot) % (B + 1);        // every lane a different amount
                    else if (mode == 2) v[i] = rot;                         // same in all lanes
                    else v[i] = (uint64_t)*R(0, B + 1);
                }
                break;
            }
            case VK_BOOL: {
                int mode = (int)*R(0, 8);
                unsigned p = (unsigned)*R(0, W + 1);
                uint64_t r = *U64();
                for (unsigned i = 0; i < W; ++i) {
                    switch (mode) {
                    case 0: v[i] = 0; break;
                    case 1: v[i] = 1; break;
                    case 2: v[i] = (i == p % W); break;
                    case 3: v[i] = (i != p % W); break;
                    case 4: v[i] = (i < p); break;
                    case 5: v[i] = (i >= p); break;
                    case 6: v[i] = (i + p) & 1; break;
                    default: v[i] = (r >> (i % 64)) & 1; if (i == 63) r = *U64(); break;
                    }
                }
                break;
            }
            case VK_RAW:
                fill_lanes(v, W < 8 ? 8 : W, [](unsigned) { return gen::weightedOneOf<uint64_t>({{2, full(gen::elementOf(ilat(64)))}, {3, U64()}, {1, gen::map(R(-200, 201), [](int64_t x) { return (uint64_t)x; })}}); }, U64());
                break;
            case VK_CMDS: {
                std::vector<uint64_t> w = *gen::container<std::vector<uint64_t> >(U64());
                size_t n = std::min<size_t>(w.size(), VP_NOPER * VP_MAXL);
                uint64_t* flatw = &c.v[0][0];
                for (size_t i = 0; i < n; ++i) flatw[i] = w[i];
                c.s[3] = (int64_t)n;
                break;
            }
            case VK_IDX: {
                int mode = (int)*R(0, 4);
                int64_t base = *R(-24, 25);
                for (unsigned i = 0; i < W; ++i) {
                    if (mode == 0) v[i] = (uint64_t)(base + (int64_t)i * ((base & 1) ? 1 : -1));
                    else if (mode == 1) v[i] = (uint64_t)(int64_t)((i * 7 + (uint64_t)base) % 61) - 30;
                    else v[i] = (uint64_t)*R(-40, 41);
                }
                break;
            }
            default: break;
            }
        }
        for (int k = 0; k < VP_NSCAL; ++k) {
            unsigned skind = O.sk[k];
            if (T.cls == 2 && skind == SK_INTVAL) skind = SK_FLTVAL;
            switch (skind) {
            case SK_N: c.s[k] = *R(0, W + 3); break;
            case SK_AMT: c.s[k] = *gen::weightedOneOf<int64_t>({{4, R(0, B + 1)}, {1, gen::just<int64_t>(0)}, {1, gen::just<int64_t>(B)}, {1, gen::just<int64_t>(B - 1)}}); break;
            case SK_ANYLL:
                c.s[k] = *gen::weightedOneOf<int64_t>({{4, R(-2 * (int64_t)B - 1, 2 * (int64_t)B + 2)}, {2, gen::map(R(-1000, 1001), [B](int64_t x) { return x * (int64_t)B; })},
                                                       {2, gen::map(U64(), [](uint64_t x) { return (int64_t)x; })}, {1, gen::elementOf(std::vector<int64_t>{INT64_MIN, INT64_MAX, INT32_MIN, INT32_MAX, -1, 0, 255, 256, 65535, 65536, (int64_t)1 << 32, -((int64_t)1 << 32)})}});
                break;
            case SK_LANE: c.s[k] = *R(0, W); break;
            case SK_OFF: c.s[k] = *R(0, 64); break;
            case SK_SMALL: c.s[k] = *R(0, 16); break;
            case SK_INTVAL: c.s[k] = (int64_t)*gInt(B); break;
            case SK_FLTVAL: c.s[k] = (int64_t)*gFlt(B); break;
            case SK_RAW: c.s[k] = (int64_t)*gen::weightedOneOf<uint64_t>({{2, full(gen::elementOf(ilat(64)))}, {3, U64()}}); break;
            case SK_EXP:
                c.s[k] = *gen::weightedOneOf<int64_t>({{6, R(-400, 401)}, {2, R(-2200, 2201)}, {1, gen::elementOf(std::vector<int64_t>{INT32_MIN, INT32_MAX, -(1 << 20), 1 << 20, INT32_MIN + 1, INT32_MAX - 1, -65536, 65536, -32768, 32767})}});
                break;
            default: break;
            }
        }
        return c;
    });
}

namespace rc {
template<> struct Arbitrary<VpCase> { static Gen<VpCase> arbitrary() { return gen::just(VpCase()); } };
}
void showValue(const VpCase& c, std::ostream& os) { os << "Case(target=" << c.target << ", op=" << c.op << ")"; }

static uint64_t mix(uint64_t a, uint64_t b) { a ^= b + 0x9E3779B97F4A7C15ull + (a << 6) + (a >> 2); a *= 0xBF58476D1CE4E5B9ull; return a ^ (a >> 31); }

static void run_rc(uint64_t count_scale) {
    rc::detail::TestParams base = rc::detail::configuration().testParams;
    for (uint32_t ti = 0; ti < g_ntargets; ++ti) {
        if (!g_targets[ti].present) continue;
        for (uint32_t oi = 0; oi < g_nops; ++oi) {
            const VpOp& O = g_ops[oi];
            // ask the check whether this (target, op) exists at all
            { VpCase probe; std::memset(&probe, 0, sizeof probe); probe.target = ti; probe.op = oi; VpOutcome po; run_raw(probe, po); if (po.status == 2) continue; }
            rc::detail::TestParams p = base;
            p.seed = mix(mix(base.seed, ti), oi);
            uint64_t n = (uint64_t)base.maxSuccess * (O.weight ? O.weight : 1) * count_scale / 100;
            // wide vectors carry more lanes per case: keep the lane volume roughly level
            unsigned W = g_targets[ti].width;
            if (W >= 16) n = n * 16 / (W * 2) + 1; else if (W == 1) n = n * 2;
            if (n < 20) n = 20;
            if (O.weight >= 1000) n = O.weight - 1000;      // an expensive operation: a fixed number of random cases
            p.maxSuccess = (int)n;
            rc::detail::TestMetadata md;
            md.id = std::string(g_targets[ti].name) + "/" + O.name;
            md.description = md.id;
            VpCase last_fail; bool have_fail = false;
            Gen<VpCase> g = genCase(ti, oi);
            auto result = rc::detail::checkTestable([&]() {
                VpCase c = *g;
                VpOutcome o;
                run_raw(c, o);
                if (o.status == 1 && known_index(sig_of(c, o)) < 0) { last_fail = c; have_fail = true; RC_FAIL(o.msg); }
                // account only in the non-shrinking path; failing + shrinking executions are accounted
                // below through account(last_fail)
                account(c, false);
            }, md, p);
            if (have_fail) account(last_fail, true);  // rapidcheck's minimum, then the own minimiser
            (void)result;
        }
    }
}

// ------------------------------------------------------------------------------------------------
// JSON output
// ------------------------------------------------------------------------------------------------
static std::string jesc(const std::string& s) {
    std::string r;
    for (char ch : s) { if (ch == '"' || ch == '\\') { r += '\\'; r += ch; } else if ((unsigned char)ch < 0x20) { char b[8]; snprintf(b, 8, "\\u%04x", ch); r += b; } else r += ch; }
    return r;
}
static std::string hexbytes(const void* p, size_t n) {
    static const char* d = "0123456789abcdef"; std::string s; s.reserve(n * 2);
    const unsigned char* b = (const unsigned char*)p;
    for (size_t i = 0; i < n; ++i) { s += d[b[i] >> 4]; s += d[b[i] & 15]; }
    return s;
}
// compact, lossless text form of a Case: target, op, scalars, then run-length-trimmed operand words
static std::string case_text(const VpCase& c) {
    std::ostringstream os;
    os << c.target << " " << c.op;
    for (int k = 0; k < VP_NSCAL; ++k) os << " " << c.s[k];
    const uint64_t* w = &c.v[0][0];
    os << std::hex;
    for (size_t i = 0; i < VP_NOPER * VP_MAXL; ++i) if (w[i]) os << " " << i << ":" << w[i];
    return os.str();
}
static bool case_from_text(const std::string& t, VpCase& c) {
    std::memset(&c, 0, sizeof c);
    std::istringstream is(t);
    if (!(is >> c.target >> c.op)) return false;
    for (int k = 0; k < VP_NSCAL; ++k) if (!(is >> c.s[k])) return false;
    uint64_t* w = &c.v[0][0];
    std::string tok;
    while (is >> tok) {
        size_t p = tok.find(':');
        if (p == std::string::npos) return false;
        uint64_t idx = strtoull(tok.substr(0, p).c_str(), 0, 16), val = strtoull(tok.substr(p + 1).c_str(), 0, 16);
        if (idx >= VP_NOPER * VP_MAXL) return false;
        w[idx] = val;
    }
    return true;
}
static std::string case_json(const VpCase& c) {
    const VpTarget& T = g_targets[c.target];
    const VpOp& O = g_ops[c.op];
    std::ostringstream os;
    os << "{\"target\":\"" << T.name << "\",\"op\":\"" << O.name << "\",\"s\":[";
    bool first = true;
    for (int k = 0; k < VP_NSCAL; ++k) if (O.sk[k] != SK_NONE || (k == 3 && c.s[3])) { os << (first ? "" : ",") << c.s[k]; first = false; }
    os << "],\"v\":[";
    first = true;
    bool cmds = false;
    for (int k = 0; k < VP_NOPER; ++k) if (O.vk[k] == VK_CMDS) cmds = true;
    if (cmds) {
        os << "[";
        const uint64_t* w = &c.v[0][0];
        for (int64_t i = 0; i < c.s[3] && i < 256; ++i) { char b[24]; snprintf(b, 24, "\"%llx\"", (unsigned long long)w[i]); os << (i ? "," : "") << b; }
        os << "]";
    } else
        for (int k = 0; k < VP_NOPER; ++k) {
            if (O.vk[k] == VK_NONE) continue;
            os << (first ? "" : ",") << "["; first = false;
            unsigned n = O.vk[k] == VK_RAW ? std::max(8u, T.width) : T.width;
            for (unsigned i = 0; i < n; ++i) { char b[24]; snprintf(b, 24, "\"%llx\"", (unsigned long long)c.v[k][i]); os << (i ? "," : "") << b; }
            os << "]";
        }
    os << "],\"text\":\"" << case_text(c) << "\"}";
    return os.str();
}
static std::string lanes_json(const uint64_t* v, unsigned n) {
    std::ostringstream os; os << "[";
    for (unsigned i = 0; i < n; ++i) { char b[24]; snprintf(b, 24, "\"%llx\"", (unsigned long long)v[i]); os << (i ? "," : "") << b; }
    os << "]"; return os.str();
}

static std::string history_json(const std::vector<VpCase>& h) {
    std::ostringstream os; os << "[";
    for (size_t i = 0; i < h.size(); ++i) os << (i ? "," : "") << "\"" << case_text(h[i]) << "\"";
    os << "]"; return os.str();
}

static void write_json(const std::string& path, const std::string& mode, uint64_t seed, double wall) {
    std::ostringstream os;
    os << "{\"property\":\"" << vp_property() << "\",\"config\":\"" << jesc(g_config) << "\",\"mode\":\"" << mode << "\",\"seed\":" << seed
       << ",\"wall_s\":" << wall << ",\"evaluations\":" << g_evals << ",\"lanes_compared\":" << g_lanes << ",\"nontrivial\":" << g_nontrivial
       << ",\"distinct_nontrivial\":" << g_distinct.size() << ",\"distinct_saturated\":" << (g_saturated ? "true" : "false")
       << ",\"not_applicable\":" << g_na << ",\"known_excluded\":" << g_known_excluded << ",\"env_fuzzed\":" << g_env_fuzzed << ",\"rule\":\"" << jesc(vp_rule()) << "\"";
    os << ",\"classes\":{";
    for (uint32_t k = 0; k < g_nclasses; ++k) os << (k ? "," : "") << "\"" << g_classes[k] << "\":" << g_class_counts[k];
    os << "},\"per_target\":{";
    { bool f = true; for (auto& kv : g_per_target) { os << (f ? "" : ",") << "\"" << kv.first << "\":" << kv.second; f = false; } }
    os << "},\"per_op\":{";
    { bool f = true; for (auto& kv : g_per_op) { os << (f ? "" : ",") << "\"" << kv.first << "\":" << kv.second; f = false; } }
    os << "},\"domains\":[";
    for (size_t i = 0; i < g_domains.size(); ++i) os << (i ? "," : "") << "\"" << jesc(g_domains[i]) << "\"";
    os << "],\"ub_reports\":{";
    { bool f = true; for (auto& kv : g_ub_reports) { os << (f ? "" : ",") << "\"" << jesc(kv.first) << "\":" << kv.second; f = false; } }
    os << "},\"digests\":{";
    { bool f = true; for (auto& kv : g_digest) { os << (f ? "" : ",") << "\"" << kv.first << "\":\"" << std::hex << kv.second << std::dec << "\""; f = false; } }
    os << "}";
    os << ",\"samples\":[";
    for (size_t i = 0; i < g_samples.size(); ++i) os << (i ? "," : "") << "{\"phase\":\"" << g_samples[i].second << "\",\"case\":" << case_json(g_samples[i].first) << "}";
    os << "],\"failures\":[";
    for (size_t i = 0; i < g_failures.size(); ++i) {
        const Failure& f = g_failures[i];
        unsigned W = g_targets[f.c.target].width;
        os << (i ? "," : "") << "{\"sig\":\"" << jesc(f.sig) << "\",\"phase\":\"" << f.phase << "\",\"msg\":\"" << jesc(f.o.msg) << "\",\"bad_lane\":" << f.o.bad_lane
           << ",\"confirmed\":" << f.confirmed << ",\"history\":" << history_json(f.history) << ",\"expect\":" << lanes_json(f.o.expect, W) << ",\"actual\":" << lanes_json(f.o.actual, W)
           << ",\"case\":" << case_json(f.c) << "}";
    }
    os << "],\"known\":[";
    { bool f = true; for (auto& kv : g_known_hits) {
        unsigned W = g_targets[kv.second.example.target].width;
        os << (f ? "" : ",") << "{\"glob\":\"" << jesc(kv.first) << "\",\"count\":" << kv.second.count << ",\"msg\":\"" << jesc(kv.second.o.msg)
           << "\",\"sig\":\"" << jesc(sig_of(kv.second.example, kv.second.o)) << "\",\"expect\":" << lanes_json(kv.second.o.expect, W) << ",\"actual\":" << lanes_json(kv.second.o.actual, W)
           << ",\"case\":" << case_json(kv.second.example) << "}"; f = false; } }
    os << "]}";
    if (path.empty() || path == "-") { std::cout << os.str() << std::endl; return; }
    std::ofstream f(path.c_str());
    f << os.str() << std::endl;
}

// ------------------------------------------------------------------------------------------------
#include <chrono>
int main(int argc, char** argv) {
    std::string mode = "list", out = "-", casetext, regress_file, history_file;
    uint64_t seed = 1, scale = 100; int tier = 0; uint32_t shard = 0, nshards = 1;
    for (int i = 1; i < argc; ++i) {
        std::string a = argv[i];
        auto next = [&]() { return std::string(i + 1 < argc ? argv[++i] : ""); };
        if (a == "--mode") mode = next();
        else if (a == "--out") out = next();
        else if (a == "--seed") seed = strtoull(next().c_str(), 0, 10);
        else if (a == "--scale") scale = strtoull(next().c_str(), 0, 10);
        else if (a == "--tier") tier = atoi(next().c_str());
        else if (a == "--config") g_config = next();
        else if (a == "--shard") { std::string s = next(); sscanf(s.c_str(), "%u/%u", &shard, &nshards); }
        else if (a == "--known") g_known.push_back(next());
        else if (a == "--case") casetext = next();
        else if (a == "--regress") regress_file = next();
        else if (a == "--history-file") history_file = next();
        else if (a == "--env-fuzz") { std::string e = next(); sscanf(e.c_str(), "%u,%u", &g_env_int, &g_env_flt); }
        else if (a == "--max-failures") g_max_failures = strtoull(next().c_str(), 0, 10);
        else if (a == "--ub-violation") g_ub_is_violation = atoi(next().c_str()) != 0;
        else if (a == "--enum-stride") g_enum_stride = strtoull(next().c_str(), 0, 10);
        else if (a == "--poison-every") { g_poison_every = strtoull(next().c_str(), 0, 10); if (!g_poison_every) g_poison_every = 1; }
    }
    g_targets = vp_targets(&g_ntargets);
    g_ops = vp_ops(&g_nops);
    g_classes = vp_class_names(&g_nclasses);
    g_class_counts.assign(g_nclasses, 0);
    auto t0 = std::chrono::steady_clock::now();
    g_out_path = out; g_mode_name = mode; g_seed_value = seed;
    if (g_enum_stride > 1) g_enum_phase = seed % g_enum_stride;
    if (mode != "list") san_init();
    if (mode == "list") {
        for (uint32_t i = 0; i < g_ntargets; ++i) printf("target %u %s present=%u\n", i, g_targets[i].name, g_targets[i].present);
        for (uint32_t i = 0; i < g_nops; ++i) printf("op %u %s\n", i, g_ops[i].name);
        return 0;
    }
    if (mode == "replay") {
        VpCase c;
        if (!case_from_text(casetext, c)) { fprintf(stderr, "bad --case\n"); return 2; }
        int fails = 0, na = 0; VpOutcome o;
        std::vector<VpCase> hist;
        if (!history_file.empty()) { std::ifstream hf(history_file.c_str()); std::string line; while (std::getline(hf, line)) { VpCase h; if (!line.empty() && case_from_text(line, h)) hist.push_back(h); } }
        for (int r = 0; r < 3; ++r) { for (size_t i = 0; i < hist.size(); ++i) { VpOutcome t; run_raw(hist[i], t); } run_raw(c, o); if (o.status == 1) ++fails; if (o.status == 2) ++na; }
        if (na) { printf("REPLAY not-applicable in this configuration\n"); return 3; }
        printf("REPLAY %s fails=%d/3 sig=%s msg=%s\n", fails ? "FAIL" : "PASS", fails, fails ? sig_of(c, o).c_str() : "-", o.msg);
        if (fails) { printf("  case=%s\n  expect=%s\n  actual=%s\n", case_json(c).c_str(), lanes_json(o.expect, g_targets[c.target].width).c_str(), lanes_json(o.actual, g_targets[c.target].width).c_str()); }
        return fails ? 1 : 0;
    }
    if (!regress_file.empty()) {
        g_phase = "regression";
        std::ifstream rf(regress_file.c_str()); std::string line;
        while (std::getline(rf, line)) { VpCase c; if (!line.empty() && line[0] != '#' && case_from_text(line, c)) account(c); }
    }
    if (mode == "all" || mode == "enum" || mode == "enumrc") {
        g_phase = "enum";
        vp_enum(tier, seed, shard, nshards, emit_cb, nullptr);
    }
    if (mode == "all" || mode == "sweep") {
        g_phase = "sweep";
        uint64_t ev = 0, ln = 0; char dom[4096]; dom[0] = 0;
        vp_sweep(tier, seed, shard, nshards, emit_cb, nullptr, &ev, &ln, dom, sizeof dom);
        g_evals += ev; g_lanes += ln;
        std::istringstream is(dom); std::string d;
        while (std::getline(is, d, ';')) if (!d.empty()) g_domains.push_back(d);
    }
    if (mode == "all" || mode == "rc" || mode == "enumrc") {
        g_phase = "rapidcheck";
        run_rc(scale);
    }
    double wall = std::chrono::duration<double>(std::chrono::steady_clock::now() - t0).count();
    write_json(out, mode, seed, wall);
    return g_failures.empty() ? 0 : 1;
}
