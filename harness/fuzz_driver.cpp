// libFuzzer entry for the check objects: bytes -> Case (structure-aware decode) -> the same vp_run and oracle as the other engines.
// A failing Case that no known finding covers is written to $VP_FUZZ_OUT/case-<n>.txt (the replayable unit) before trapping.
#include "vp.hpp"
#include <fuzzer/FuzzedDataProvider.h>
#include <csetjmp>
#include <csignal>
#include <fnmatch.h>
#include <string>
#include <vector>
#include <sstream>
#include <ucontext.h>
#include <xmmintrin.h>
#include <unistd.h>

static const VpTarget* T; static uint32_t NT; static const VpOp* O; static uint32_t NO;
static std::vector<std::string> known; static std::string outdir; static uint64_t execs, fails_known, na;
static sigjmp_buf jb; static volatile sig_atomic_t in_run; static volatile int sig_no;
static void on_sig(int s, siginfo_t*, void*) { if (!in_run) { signal(s, SIG_DFL); raise(s); return; } sig_no = s; siglongjmp(jb, 1); }

static std::string case_text(const VpCase& c) {
    std::ostringstream os; os << c.target << " " << c.op; for (int k = 0; k < VP_NSCAL; ++k) os << " " << c.s[k];
    const uint64_t* w = &c.v[0][0]; os << std::hex; for (size_t i = 0; i < VP_NOPER * VP_MAXL; ++i) if (w[i]) os << " " << i << ":" << w[i];
    return os.str();
}
extern "C" int LLVMFuzzerInitialize(int*, char***) {
    T = vp_targets(&NT); O = vp_ops(&NO);
    if (const char* k = getenv("VP_KNOWN")) { std::istringstream is(k); std::string g; while (std::getline(is, g, ';')) if (!g.empty()) known.push_back(g); }
    if (const char* d = getenv("VP_FUZZ_OUT")) outdir = d;
    struct sigaction sa; std::memset(&sa, 0, sizeof sa); sa.sa_sigaction = on_sig; sa.sa_flags = SA_SIGINFO | SA_NODEFER;
    for (int s : {SIGFPE, SIGILL, SIGTRAP}) sigaction(s, &sa, nullptr);    // SIGSEGV/SIGBUS stay with ASan
    return 0;
}
extern "C" int LLVMFuzzerTestOneInput(const uint8_t* data, size_t size) {
    FuzzedDataProvider fdp(data, size);
    VpCase c; std::memset(&c, 0, sizeof c);
    // present targets only, so that the fuzzer does not waste executions on absent types
    std::vector<uint32_t> present; for (uint32_t i = 0; i < NT; ++i) if (T[i].present) present.push_back(i);
    if (present.empty()) return 0;
    c.target = present[fdp.ConsumeIntegralInRange<uint32_t>(0, (uint32_t)present.size() - 1)];
    c.op = fdp.ConsumeIntegralInRange<uint32_t>(0, NO - 1);
    const VpOp& op = O[c.op]; const unsigned W = T[c.target].width, B = T[c.target].bits;
    for (int k = 0; k < VP_NSCAL; ++k) if (op.sk[k] != SK_NONE) c.s[k] = fdp.ConsumeIntegral<int64_t>();
    bool cmds = false; for (int k = 0; k < VP_NOPER; ++k) if (op.vk[k] == VK_CMDS) cmds = true;
    if (cmds) {
        size_t n = fdp.ConsumeIntegralInRange<size_t>(0, VP_NOPER * VP_MAXL); uint64_t* w = &c.v[0][0]; size_t i = 0;
        for (; i < n && fdp.remaining_bytes() >= 8; ++i) w[i] = fdp.ConsumeIntegral<uint64_t>();
        c.s[3] = (int64_t)i;
    } else {
        const uint64_t m = B >= 64 ? ~0ull : ((1ull << B) - 1);
        for (int k = 0; k < VP_NOPER; ++k) {
            if (op.vk[k] == VK_NONE) continue;
            unsigned n = op.vk[k] == VK_RAW ? (W < 8 ? 8 : W) : W;
            for (unsigned i = 0; i < n; ++i) { uint64_t x = fdp.ConsumeIntegral<uint64_t>(); c.v[k][i] = (op.vk[k] == VK_RAW || op.vk[k] == VK_IDX) ? x : (x & m); }
        }
    }
    VpOutcome o; std::memset(&o, 0, sizeof o); o.bad_lane = -1;
    _mm_setcsr(0x1F80);
    if (sigsetjmp(jb, 1) == 0) { in_run = 1; vp_run(&c, &o); in_run = 0; }
    else { in_run = 0; if (std::strncmp(o.tag, "trap-ok", 7) == 0) { return 0; } o.status = 1; std::snprintf(o.tag, sizeof o.tag, "signal:%d", (int)sig_no); std::snprintf(o.msg, sizeof o.msg, "signal %d raised inside the operation", (int)sig_no); }
    ++execs;
    if (o.status == 2) { ++na; return -1; }      // not applicable: keep it out of the corpus
    if (o.status != 1) return 0;
    std::string sig = std::string(T[c.target].name) + "|" + O[c.op].name + "|" + o.tag;
    for (auto& g : known) if (fnmatch(g.c_str(), sig.c_str(), 0) == 0) { ++fails_known; return 0; }
    if (!outdir.empty()) {
        static int n = 0; char p[512]; std::snprintf(p, sizeof p, "%s/case-%d-%d.txt", outdir.c_str(), (int)getpid(), n++);
        if (FILE* f = fopen(p, "w")) { fprintf(f, "%s\n%s\n%s\n", case_text(c).c_str(), sig.c_str(), o.msg); fclose(f); }
    }
    fprintf(stderr, "VP-FUZZ-FAILURE sig=%s msg=%s\n", sig.c_str(), o.msg);
    __builtin_trap();
}
