// C02: vector comparisons yield the exact lane-wise truth mask (ints and floats).
#define VP_CHECK_OBJECT
#include "../vp.hpp"
#include "../lattice.hpp"

using namespace vp;

enum { OP_EQ, OP_NE, OP_LT, OP_LE, OP_GT, OP_GE, OP_COUNT };
static const VpOp OPS[] = {
    {"eq", {VK_INT, VK_INT_REL}, {}, 1}, {"ne", {VK_INT, VK_INT_REL}, {}, 1}, {"lt", {VK_INT, VK_INT_REL}, {}, 1},
    {"le", {VK_INT, VK_INT_REL}, {}, 1}, {"gt", {VK_INT, VK_INT_REL}, {}, 1}, {"ge", {VK_INT, VK_INT_REL}, {}, 1},
};
enum { CL_EQUAL, CL_DIFF1, CL_SAME_UPPER, CL_OPP_SIGN, CL_MINMAX, CL_NAN, CL_ZERO_PAIR, CL_INF, CL_SUBNORMAL, CL_ORDINARY };
static const char* const CLASSES[] = {"equal", "differ_by_one", "same_upper_half_diff_lower", "opposite_sign_bit", "min_vs_max",
                                      "nan_operand", "signed_zero_pair", "infinity", "subnormal", "ordinary"};

extern "C" const char* vp_property(void) { return "C02"; }
extern "C" const VpOp* vp_ops(uint32_t* n) { *n = OP_COUNT; return OPS; }
extern "C" const char* const* vp_class_names(uint32_t* n) { *n = 10; return CLASSES; }
extern "C" const char* vp_rule(void) {
    return "a case is one vector pair and one of the six operators; non-trivial = at least one lane pair in a boundary class "
           "(equal, differ by one, same upper half with differing lower half, opposite sign bit, MIN vs MAX, NaN operand, "
           "+0/-0 pair, infinity, subnormal); distinct = distinct hash of the whole Case";
}
#define ALLCLS(c) true
VP_DEFINE_VECTOR_TARGETS(ALLCLS)

template<class T, bool F = std::is_floating_point<T>::value> struct LaneCls;
template<class T> struct LaneCls<T, false> {
    static unsigned cls(uint64_t a, uint64_t b) {
        const unsigned B = elem<T>::bits;
        const uint64_t m = elem<T>::mask();
        a &= m; b &= m;
        if (a == b) return CL_EQUAL;
        const uint64_t mn = uint64_t(1) << (B - 1), mx = mn - 1;
        if ((a == mn && b == mx) || (a == mx && b == mn) || (a == 0 && b == m) || (a == m && b == 0)) return CL_MINMAX;
        if (((a + 1) & m) == b || ((b + 1) & m) == a) return CL_DIFF1;
        if (B >= 16 && (a >> (B / 2)) == (b >> (B / 2))) return CL_SAME_UPPER;
        if ((a ^ b) >> (B - 1)) return CL_OPP_SIGN;
        return CL_ORDINARY;
    }
    static bool truth(unsigned op, uint64_t ab, uint64_t bb) {
        // signed as signed, unsigned as unsigned, on widened images
        if (elem<T>::is_signed) {
            int64_t a = elem<T>::sval(ab), b = elem<T>::sval(bb);
            switch (op) { case OP_EQ: return a == b; case OP_NE: return a != b; case OP_LT: return a < b; case OP_LE: return a <= b; case OP_GT: return a > b; default: return a >= b; }
        } else {
            uint64_t a = ab & elem<T>::mask(), b = bb & elem<T>::mask();
            switch (op) { case OP_EQ: return a == b; case OP_NE: return a != b; case OP_LT: return a < b; case OP_LE: return a <= b; case OP_GT: return a > b; default: return a >= b; }
        }
    }
};
template<class T> struct LaneCls<T, true> {
    static bool isnan_bits(uint64_t x) {
        const unsigned B = elem<T>::bits, mb = B == 32 ? 23 : 52;
        uint64_t e = (x >> mb) & ((uint64_t(1) << (B - 1 - mb)) - 1), mant = x & ((uint64_t(1) << mb) - 1);
        return e == ((uint64_t(1) << (B - 1 - mb)) - 1) && mant != 0;
    }
    static unsigned one(uint64_t x) {
        const unsigned B = elem<T>::bits, mb = B == 32 ? 23 : 52;
        uint64_t emax = (uint64_t(1) << (B - 1 - mb)) - 1;
        uint64_t e = (x >> mb) & emax, mant = x & ((uint64_t(1) << mb) - 1);
        if (e == emax) return mant ? CL_NAN : CL_INF;
        if (e == 0 && mant) return CL_SUBNORMAL;
        return CL_ORDINARY;
    }
    static unsigned cls(uint64_t a, uint64_t b) {
        const uint64_t m = elem<T>::mask();
        a &= m; b &= m;
        unsigned ca = one(a), cb = one(b);
        if (ca == CL_NAN || cb == CL_NAN) return CL_NAN;
        const uint64_t absm = m >> 1;
        if ((a & absm) == 0 && (b & absm) == 0 && a != b) return CL_ZERO_PAIR;
        if (a == b) return CL_EQUAL;
        if (ca == CL_INF || cb == CL_INF) return CL_INF;
        if (ca == CL_SUBNORMAL || cb == CL_SUBNORMAL) return CL_SUBNORMAL;
        if (a + 1 == b || b + 1 == a) return CL_DIFF1;
        if ((a ^ b) >> (elem<T>::bits - 1)) return CL_OPP_SIGN;
        return CL_ORDINARY;
    }
    // IEEE comparison decided from the bit patterns (no FP instruction): NaN unordered, +0 == -0
    static bool truth(unsigned op, uint64_t ab, uint64_t bb) {
        const uint64_t m = elem<T>::mask(), absm = m >> 1;
        ab &= m; bb &= m;
        if (isnan_bits(ab) || isnan_bits(bb)) return op == OP_NE;
        // map to a totally ordered integer key; both zeros map to 0
        auto key = [&](uint64_t x) -> i128 { i128 mag = (i128)(x & absm); return (x >> (elem<T>::bits - 1)) ? -mag : mag; };
        i128 a = key(ab), b = key(bb);
        switch (op) { case OP_EQ: return a == b; case OP_NE: return a != b; case OP_LT: return a < b; case OP_LE: return a <= b; case OP_GT: return a > b; default: return a >= b; }
    }
};

template<class V> static void run(const VpCase* c, VpOutcome* o) {
    typedef typename V::scalar T;
    typedef typename V::mask M;
    const unsigned W = V::width;
    V a = mk<V>(c->v[0]), b = mk<V>(c->v[1]);
    poison_below(c->v[0][0] ^ c->op);
    M m;
    switch (c->op) {
    case OP_EQ: m = (a == b); break;
    case OP_NE: m = (a != b); break;
    case OP_LT: m = (a < b); break;
    case OP_LE: m = (a <= b); break;
    case OP_GT: m = (a > b); break;
    default:    m = (a >= b); break;
    }
    uint64_t got[VP_MAXL], exp[VP_MAXL], ext[VP_MAXL];
    unsigned noncanon = 0;
    rdmask<M>(m, got, &noncanon);
    extract_all<M>(m, ext);
    unsigned cls_bad = CL_ORDINARY;
    unsigned popc = 0;
    for (unsigned i = 0; i < W; ++i) {
        unsigned cl = LaneCls<T>::cls(c->v[0][i], c->v[1][i]);
        o->classes |= 1u << cl;
        if (cl != CL_ORDINARY) o->nontrivial = 1;
        exp[i] = LaneCls<T>::truth(c->op, c->v[0][i], c->v[1][i]) ? 1 : 0;
        popc += (unsigned)exp[i];
    }
    for (unsigned i = 0; i < W; ++i) if (exp[i] != got[i]) { cls_bad = LaneCls<T>::cls(c->v[0][i], c->v[1][i]); break; }
    char tag[96];
    std::snprintf(tag, sizeof tag, "mask:%s", CLASSES[cls_bad]);
    if (!cmp_lanes(o, W, exp, got, nullptr, tag, "comparison mask (decoded from primitive)")) return;
    for (unsigned i = 0; i < W; ++i) if (ext[i] != exp[i]) { fail(o, (int)i, "extract", "extract<%u>(mask)=%llu but lane truth is %llu", i, (unsigned long long)ext[i], (unsigned long long)exp[i]); return; }
    // observers of the same mask must agree with the lanes
    if (avel::count(m) != popc) { fail(o, -1, "count", "count(mask)=%u expected %u", (unsigned)avel::count(m), popc); return; }
    if (avel::any(m) != (popc != 0)) { fail(o, -1, "any", "any(mask) wrong (popcount %u)", popc); return; }
    if (avel::all(m) != (popc == W)) { fail(o, -1, "all", "all(mask) wrong (popcount %u of %u)", popc, W); return; }
    if (avel::none(m) != (popc == 0)) { fail(o, -1, "none", "none(mask) wrong (popcount %u)", popc); return; }
    if (!mask_consumers_ok<V>(m, exp, o, OPS[c->op].name)) return;      // the comparison's mask handed to keep / clear / blend
    uint64_t vm[VP_MAXL];
    V fromm{m};
    rd<V>(fromm, vm);
    for (unsigned i = 0; i < W; ++i) {
        uint64_t one = elem<T>::to_bits(T(1));
        if (vm[i] != (exp[i] ? one : 0)) { fail(o, (int)i, "vector_from_mask", "Vector(mask) lane %u = 0x%llx", i, (unsigned long long)vm[i]); return; }
    }
    ++o->lanes_compared;
}

extern "C" void vp_run(const VpCase* c, VpOutcome* o) {
    switch (c->target) {
#define X(n) case T_##n: run<avel::n>(c, o); return;
        VP_ALL_VECS(X)
#undef X
    default: o->status = 2; return;
    }
}

// deterministic phase: lattice cross product in every lane position, plus exhaustive 8-bit pairs
extern "C" void vp_enum(int tier, uint64_t seed, uint32_t shard, uint32_t nshards, void (*emit)(const VpCase*, void*), void* ctx) {
    uint32_t nt; const VpTarget* T = vp_targets(&nt);
    uint64_t job = 0;
    for (uint32_t t = 0; t < nt; ++t) {
        if (!T[t].present) continue;
        const unsigned W = T[t].width, B = T[t].bits;
        std::vector<uint64_t> L = T[t].cls == 2 ? vpl::flt_lattice_small(B) : vpl::int_lattice_small(B);
        if (T[t].cls != 2 && B == 8) { L.clear(); for (unsigned x = 0; x < 256; ++x) L.push_back(x); }
        // all pairs of L, packed W pairs per case, rotated so that every pair class meets every lane
        const size_t n = L.size();
        for (unsigned op = 0; op < OP_COUNT; ++op) {
            if ((job++ % nshards) != shard) continue;
            VpCase c; std::memset(&c, 0, sizeof c); c.target = t; c.op = op;
            size_t fill = 0; uint64_t rot = seed + op;
            for (size_t i = 0; i < n; ++i)
                for (size_t j = 0; j < n; ++j) {
                    unsigned lane = (unsigned)((fill + rot) % W);
                    c.v[0][lane] = L[i]; c.v[1][lane] = L[j];
                    if (++fill == W) { emit(&c, ctx); fill = 0; ++rot; }
                }
            if (fill) emit(&c, ctx);
        }
    }
}

extern "C" void vp_sweep(int, uint64_t, uint32_t, uint32_t, void (*)(const VpCase*, void*), void*, uint64_t*, uint64_t*, char* d, size_t) { d[0] = 0; }
