// C16: scalar functions in avel/Scalar.hpp equal the lanes of the vector functions; mixed-sign cmp_* compare mathematical values.
#define VP_CHECK_OBJECT
#include "../fpcommon.hpp"
#include "../lattice.hpp"

using namespace vp;

// function families: X(name)
#define UN_FUNCS(X) X(popcount) X(countl_zero) X(countl_one) X(countr_zero) X(countr_one) X(bit_width) X(bit_floor) X(bit_ceil) X(byteswap) X(countl_sign) X(abs) \
                    X(ceil) X(floor) X(trunc) X(round) X(nearbyint) X(rint) X(sqrt) X(logb) X(frac)
#define UN_SRET_FUNCS(X) X(neg_abs)
#define BIN_FUNCS(X) X(min) X(max) X(average) X(midpoint) X(fmax) X(fmin) X(fdim) X(copysign)
#define TERN_FUNCS(X) X(clamp)
#define MASKED1_FUNCS(X) X(keep) X(clear) X(negate)
#define MASKED2_FUNCS(X) X(blend)
#define ROT_FUNCS(X) X(rotl) X(rotr)
#define UN_MASK_FUNCS(X) X(has_single_bit) X(isnan) X(isinf) X(isfinite) X(isnormal) X(signbit)
#define BIN_MASK_FUNCS(X) X(isgreater) X(isgreaterequal) X(isless) X(islessequal) X(islessgreater) X(isunordered)
#define UN_INT_FUNCS(X) X(ilogb) X(fpclassify)
#define EXP_FUNCS(X) X(ldexp) X(scalbn)
#define CMP_FUNCS(X) X(cmp_equal) X(cmp_not_equal) X(cmp_less) X(cmp_less_equal) X(cmp_greater) X(cmp_greater_equal)
#define ALL_DIFF_FUNCS(X) UN_FUNCS(X) UN_SRET_FUNCS(X) BIN_FUNCS(X) TERN_FUNCS(X) MASKED1_FUNCS(X) MASKED2_FUNCS(X) ROT_FUNCS(X) UN_MASK_FUNCS(X) BIN_MASK_FUNCS(X) UN_INT_FUNCS(X) EXP_FUNCS(X)

enum {
#define X(n) OP_##n,
    ALL_DIFF_FUNCS(X) OP_frexp,
#undef X
#define X(n) OP_##n##_iu, OP_##n##_ui,
    CMP_FUNCS(X)
#undef X
    OP_COUNT
};
#define V1 {VK_INT}, {}, 1
#define V2 {VK_INT, VK_INT_REL}, {}, 1
static const VpOp OPS[] = {
#define X(n) {#n, V1},
    UN_FUNCS(X) UN_SRET_FUNCS(X)
#undef X
#define X(n) {#n, V2},
    BIN_FUNCS(X)
#undef X
    {"clamp", {VK_INT, VK_INT_REL, VK_INT_REL}, {}, 1},
#define X(n) {#n, {VK_INT, VK_NONE, VK_NONE, VK_BOOL}, {}, 1},
    MASKED1_FUNCS(X)
#undef X
    {"blend", {VK_INT, VK_INT_REL, VK_NONE, VK_BOOL}, {}, 1},
#define X(n) {#n, {VK_INT}, {SK_ANYLL}, 1},
    ROT_FUNCS(X)
#undef X
#define X(n) {#n, V1},
    UN_MASK_FUNCS(X)
#undef X
#define X(n) {#n, V2},
    BIN_MASK_FUNCS(X)
#undef X
#define X(n) {#n, V1},
    UN_INT_FUNCS(X)
#undef X
#define X(n) {#n, {VK_INT, VK_RAW}, {}, 1},
    EXP_FUNCS(X)
#undef X
    {"frexp", V1},
#define X(n) {#n "_signed_unsigned", V2}, {#n "_unsigned_signed", V2},
    CMP_FUNCS(X)
#undef X
};
enum { CL_ZERO, CL_ALLONES, CL_MIN, CL_FLT_SPECIAL, CL_MIXED_NEG, CL_ZERO_SIGN_DIFFERS, CL_ORDINARY };
static const char* const CLASSES[] = {"input_zero", "input_all_ones", "input_MIN", "float_nan_zero_subnormal_or_inf", "mixed_sign_compare_with_negative_signed_operand",
                                      "scalar_and_vector_differ_only_in_zero_sign", "ordinary"};
extern "C" const char* vp_property(void) { return "C16"; }
extern "C" const VpOp* vp_ops(uint32_t* n) { *n = OP_COUNT; return OPS; }
extern "C" const char* const* vp_class_names(uint32_t* n) { *n = 7; return CLASSES; }
extern "C" const char* vp_rule(void) {
    return "a case is a vector of inputs and one function that has both a scalar overload and a vector form: the scalar result for each lane's input must equal that lane of the vector "
           "result (heterogeneous neighbours), for every width present; or a mixed-signedness cmp_* pair compared against the mathematical values; non-trivial = an input of 0, all-ones, MIN, "
           "a NaN/zero/subnormal/infinite float, or a mixed-sign compare with a negative signed operand; distinct = distinct hash of the Case";
}
#define ALLCLS(c) true
VP_DEFINE_VECTOR_TARGETS(ALLCLS)

#define DEF_HAS(fn) \
    template<class R, class... A> struct has_##fn { \
        template<class... U> static auto t(int) -> typename std::is_same<decltype(avel::fn(std::declval<U>()...)), R>::type; \
        template<class... U> static std::false_type t(...); \
        static const bool value = decltype(t<A...>(0))::value; }; \
    struct fn_##fn { template<class... A> auto operator()(const A&... a) const -> decltype(avel::fn(a...)) { return avel::fn(a...); } };
ALL_DIFF_FUNCS(DEF_HAS) DEF_HAS(frexp) CMP_FUNCS(DEF_HAS)
template<bool Has> struct Call;
template<> struct Call<false> { template<class F, class R, class... A> static void go(F, R&, const A&...) {} };
template<> struct Call<true> { template<class F, class R, class... A> static void go(F f, R& r, const A&... a) { r = f(a...); } };

template<class V, bool IsF = std::is_floating_point<typename V::scalar>::value> struct Aux {
    typedef typename V::scalar T;
    typedef avel::Vector<typename std::make_signed<T>::type, V::width> SV;     // neg_abs of unsigned returns signed
    typedef SV IV;                                                                 // unused for ints
};
template<class V> struct Aux<V, true> {
    typedef V SV;
    typedef avel::Vector<typename avel::to_index_type<typename V::scalar>::type, V::width> IV;
};

static long decode_exp(uint64_t raw);
static long decode_exp(uint64_t raw) {
    int64_t x = (int64_t)raw;
    if (x >= -2200 && x <= 2200) return (long)x;
    return (long)(raw % 601) - 300;
}

template<class V> struct X {
    typedef typename V::scalar T;
    typedef typename V::mask M;
    typedef typename Aux<V>::SV SV; typedef typename SV::scalar ST;
    typedef typename Aux<V>::IV IV; typedef typename IV::scalar IT;
    static const unsigned W = V::width;
    static const bool isf = std::is_floating_point<T>::value;
    const VpCase* c; VpOutcome* o;
    uint64_t a[VP_MAXL], b[VP_MAXL], cc[VP_MAXL], ml[VP_MAXL]; uint8_t cmp[VP_MAXL];
    uint64_t sres[VP_MAXL], vres[VP_MAXL], sres2[VP_MAXL], vres2[VP_MAXL];
    bool float_result, two;

    void load() {
        const uint64_t m = elem<T>::mask();
        float_result = isf; two = false;
        for (unsigned i = 0; i < W; ++i) { a[i] = c->v[0][i] & m; b[i] = c->v[1][i] & m; cc[i] = c->v[2][i] & m; ml[i] = c->v[3][i] & 1; cmp[i] = 1; sres2[i] = vres2[i] = 0; }
    }
    T sa(unsigned i) const { return elem<T>::from_bits(a[i]); }
    T sb(unsigned i) const { return elem<T>::from_bits(b[i]); }
    T sc(unsigned i) const { return elem<T>::from_bits(cc[i]); }

    // documented domains: lanes outside are executed in the vector form but not compared
    void domain(unsigned op) {
        const uint64_t m = elem<T>::mask(), MINP = 1ull << (elem<T>::bits - 1);
        for (unsigned i = 0; i < W; ++i) {
            if (!isf) {
                if ((op == OP_bit_floor || op == OP_bit_ceil) && elem<T>::is_signed && (a[i] & MINP)) cmp[i] = 0;
                if (op == OP_neg_abs && !elem<T>::is_signed && (a[i] & MINP) && a[i] != MINP) { /* both sides reinterpret: comparable */ }
                if (op == OP_clamp) {
                    __int128 lo = elem<T>::is_signed ? (__int128)elem<T>::sval(b[i]) : (__int128)b[i], hi = elem<T>::is_signed ? (__int128)elem<T>::sval(cc[i]) : (__int128)cc[i];
                    if (lo == hi) cmp[i] = 0; else if (lo > hi) std::swap(b[i], cc[i]);
                }
            } else {
                typedef FB<T> F;
                if (op == OP_clamp) {
                    if (F::isnan(b[i]) || F::isnan(cc[i]) || F::key(b[i]) == F::key(cc[i])) cmp[i] = 0; else if (F::key(b[i]) > F::key(cc[i])) std::swap(b[i], cc[i]);
                }
                if ((op == OP_min || op == OP_max) && (F::isnan(a[i]) || F::isnan(b[i]))) cmp[i] = 0;     // NaN handling of min/max is not specified
                if (op == OP_clamp && F::isnan(a[i])) cmp[i] = 0;    // C07 states min/max/clamp for non-NaN inputs only (the scalar and vector forms do differ for a NaN x)
                if (op == OP_ldexp || op == OP_scalbn) {
                    // C12 owns the correctness of ldexp/scalbn and lists the emulation's failures outside the comfortable range as known findings;
                    // the differential is restricted to the region without known findings so that it does not echo them
                    long e = decode_exp(c->v[1][i]); long ae = e < 0 ? -e : e;
                    bool comfy = ae <= (long)(1 << (F::EB - 1)) - 2 && !F::issub(a[i]) && !(F::isinf(a[i]) && e < 0);
                    if (!comfy) cmp[i] = 0;
                }
                if (op == OP_fdim && (F::isnan(a[i]) || F::isnan(b[i]))) cmp[i] = 0;
                if ((op == OP_fmax || op == OP_fmin) && (F::isnan(a[i]) || F::isnan(b[i]))) {
                    uint64_t n = F::isnan(a[i]) ? a[i] : b[i]; if (!(n & (1ull << (F::MB - 1)))) cmp[i] = 0;            // signalling NaN: either answer is accepted by C12
                }
            }
        }
    }
    void classify() {
        const uint64_t m = elem<T>::mask(), MINP = 1ull << (elem<T>::bits - 1);
        bool nt = false;
        for (unsigned i = 0; i < W; ++i) {
            if (!isf) { if (a[i] == 0) { o->classes |= 1u << CL_ZERO; nt = true; } if (a[i] == m) { o->classes |= 1u << CL_ALLONES; nt = true; } if (a[i] == MINP) { o->classes |= 1u << CL_MIN; nt = true; } }
            else { typedef FB<T> F; if (F::isnan(a[i]) || F::iszero(a[i]) || F::issub(a[i]) || F::isinf(a[i])) { o->classes |= 1u << CL_FLT_SPECIAL; nt = true; } }
        }
        if (nt) o->nontrivial = 1; else o->classes |= 1u << CL_ORDINARY;
    }
    void compare(const char* name) {
        // float results: NaN by NaN-ness, zeros numerically (a differing zero sign is counted, not flagged); everything else bit for bit
        for (unsigned i = 0; i < W; ++i) {
            if (!cmp[i]) continue;
            if (float_result) {
                typedef FB<typename std::conditional<isf, T, float>::type> F;
                if (F::isnan(sres[i]) && F::isnan(vres[i])) vres[i] = sres[i];
                else if (F::iszero(sres[i]) && F::iszero(vres[i]) && sres[i] != vres[i]) { o->classes |= 1u << CL_ZERO_SIGN_DIFFERS; vres[i] = sres[i]; }
            }
        }
        char tag[96]; std::snprintf(tag, sizeof tag, "scalar_vs_lane");
        if (!cmp_lanes(o, W, sres, vres, cmp, tag, name)) return;
        if (two) cmp_lanes(o, W, sres2, vres2, cmp, "scalar_vs_lane:second_output", name);
    }
};

template<class V> static void run(const VpCase* c, VpOutcome* o) {
    typedef X<V> CX; typedef typename V::scalar T; typedef typename V::mask M;
    typedef typename CX::SV SV; typedef typename CX::ST ST; typedef typename CX::IV IV; typedef typename CX::IT IT;
    const unsigned W = V::width; const unsigned op = c->op;
    const bool isf = std::is_floating_point<T>::value;
    CX x; x.c = c; x.o = o; x.load();
    // ---- mixed-sign comparisons: independent oracle, width-1 signed integer targets carry the pair ----
    if (op >= OP_cmp_equal_iu) {
        if (W != 1 || isf || !elem<T>::is_signed) { o->status = 2; return; }
        typedef typename std::conditional<std::is_floating_point<T>::value, std::uint32_t, T>::type TI;
        typedef typename std::make_unsigned<TI>::type UT;
        const unsigned k = (op - OP_cmp_equal_iu) / 2; const bool iu = ((op - OP_cmp_equal_iu) % 2) == 0;
        __int128 sv = elem<T>::sval(x.a[0]), uv = (__int128)(x.b[0] & elem<T>::mask());
        TI s = elem<TI>::from_bits(x.a[0]); UT u = (UT)(x.b[0] & elem<T>::mask());
        bool got = false, have = true, exp;
        __int128 l = iu ? sv : uv, r = iu ? uv : sv;
        switch (k) {
#define CMPCASE(idx, fn, expr) case idx: exp = (expr); if (iu) { have = has_##fn<bool, TI, UT>::value; Call<has_##fn<bool, TI, UT>::value>::go(fn_##fn(), got, s, u); } else { have = has_##fn<bool, UT, TI>::value; Call<has_##fn<bool, UT, TI>::value>::go(fn_##fn(), got, u, s); } break;
            CMPCASE(0, cmp_equal, l == r) CMPCASE(1, cmp_not_equal, l != r) CMPCASE(2, cmp_less, l < r) CMPCASE(3, cmp_less_equal, l <= r) CMPCASE(4, cmp_greater, l > r)
            default: CMPCASE(5, cmp_greater_equal, l >= r)
        }
        if (!have) { o->status = 2; return; }
        if (sv < 0) { o->classes |= 1u << CL_MIXED_NEG; o->nontrivial = 1; } else o->classes |= 1u << CL_ORDINARY;
        uint64_t e = exp, g = got;
        cmp_lanes(o, 1, &e, &g, nullptr, sv < 0 ? "cmp:negative_signed_operand" : "cmp", OPS[op].name);
        return;
    }
    x.domain(op);
    V va = mk<V>(x.a), vb = mk<V>(x.b), vc = mk<V>(x.cc); M vm = mkmask<M>(x.ml);
    bool have = false;
    const long long rot = (long long)c->s[0];
    switch (op) {
#define X(fn) case OP_##fn: { have = has_##fn<V, V>::value && has_##fn<T, T>::value; if (!have) break; V r{}; Call<has_##fn<V, V>::value>::go(fn_##fn(), r, va); rd<V>(r, x.vres); \
        for (unsigned i = 0; i < W; ++i) { T s{}; Call<has_##fn<T, T>::value>::go(fn_##fn(), s, x.sa(i)); x.sres[i] = elem<T>::to_bits(s); } break; }
        UN_FUNCS(X)
#undef X
    case OP_neg_abs: { have = has_neg_abs<SV, V>::value && has_neg_abs<ST, T>::value; if (!have) break; SV r{}; Call<has_neg_abs<SV, V>::value>::go(fn_neg_abs(), r, va); rd<SV>(r, x.vres);
        for (unsigned i = 0; i < W; ++i) { ST s{}; Call<has_neg_abs<ST, T>::value>::go(fn_neg_abs(), s, x.sa(i)); x.sres[i] = elem<ST>::to_bits(s); } break; }
#define X(fn) case OP_##fn: { have = has_##fn<V, V, V>::value && has_##fn<T, T, T>::value; if (!have) break; V r{}; Call<has_##fn<V, V, V>::value>::go(fn_##fn(), r, va, vb); rd<V>(r, x.vres); \
        for (unsigned i = 0; i < W; ++i) { T s{}; Call<has_##fn<T, T, T>::value>::go(fn_##fn(), s, x.sa(i), x.sb(i)); x.sres[i] = elem<T>::to_bits(s); } break; }
        BIN_FUNCS(X)
#undef X
    case OP_clamp: { have = has_clamp<V, V, V, V>::value && has_clamp<T, T, T, T>::value; if (!have) break; V r{}; Call<has_clamp<V, V, V, V>::value>::go(fn_clamp(), r, va, vb, vc); rd<V>(r, x.vres);
        for (unsigned i = 0; i < W; ++i) { T s{}; Call<has_clamp<T, T, T, T>::value>::go(fn_clamp(), s, x.sa(i), x.sb(i), x.sc(i)); x.sres[i] = elem<T>::to_bits(s); } break; }
#define X(fn) case OP_##fn: { have = has_##fn<V, M, V>::value && has_##fn<T, bool, T>::value; if (!have) break; V r{}; Call<has_##fn<V, M, V>::value>::go(fn_##fn(), r, vm, va); rd<V>(r, x.vres); \
        for (unsigned i = 0; i < W; ++i) { T s{}; Call<has_##fn<T, bool, T>::value>::go(fn_##fn(), s, (bool)x.ml[i], x.sa(i)); x.sres[i] = elem<T>::to_bits(s); } break; }
        MASKED1_FUNCS(X)
#undef X
    case OP_blend: { have = has_blend<V, M, V, V>::value && has_blend<T, bool, T, T>::value; if (!have) break; V r{}; Call<has_blend<V, M, V, V>::value>::go(fn_blend(), r, vm, va, vb); rd<V>(r, x.vres);
        for (unsigned i = 0; i < W; ++i) { T s{}; Call<has_blend<T, bool, T, T>::value>::go(fn_blend(), s, (bool)x.ml[i], x.sa(i), x.sb(i)); x.sres[i] = elem<T>::to_bits(s); } break; }
#define X(fn) case OP_##fn: { have = has_##fn<V, V, long long>::value && has_##fn<T, T, long long>::value; if (!have) break; V r{}; Call<has_##fn<V, V, long long>::value>::go(fn_##fn(), r, va, rot); rd<V>(r, x.vres); \
        for (unsigned i = 0; i < W; ++i) { T s{}; Call<has_##fn<T, T, long long>::value>::go(fn_##fn(), s, x.sa(i), rot); x.sres[i] = elem<T>::to_bits(s); } break; }
        ROT_FUNCS(X)
#undef X
#define X(fn) case OP_##fn: { have = has_##fn<M, V>::value && has_##fn<bool, T>::value; if (!have) break; M r{}; Call<has_##fn<M, V>::value>::go(fn_##fn(), r, va); rdmask<M>(r, x.vres); x.float_result = false; \
        for (unsigned i = 0; i < W; ++i) { bool s = false; Call<has_##fn<bool, T>::value>::go(fn_##fn(), s, x.sa(i)); x.sres[i] = s; } break; }
        UN_MASK_FUNCS(X)
#undef X
#define X(fn) case OP_##fn: { have = has_##fn<M, V, V>::value && has_##fn<bool, T, T>::value; if (!have) break; M r{}; Call<has_##fn<M, V, V>::value>::go(fn_##fn(), r, va, vb); rdmask<M>(r, x.vres); x.float_result = false; \
        for (unsigned i = 0; i < W; ++i) { bool s = false; Call<has_##fn<bool, T, T>::value>::go(fn_##fn(), s, x.sa(i), x.sb(i)); x.sres[i] = s; } break; }
        BIN_MASK_FUNCS(X)
#undef X
#define X(fn) case OP_##fn: { have = isf && has_##fn<IV, V>::value && has_##fn<IT, T>::value; if (!have) break; IV r{}; Call<has_##fn<IV, V>::value>::go(fn_##fn(), r, va); rd<IV>(r, x.vres); x.float_result = false; \
        for (unsigned i = 0; i < W; ++i) { IT s{}; Call<has_##fn<IT, T>::value>::go(fn_##fn(), s, x.sa(i)); x.sres[i] = elem<IT>::to_bits(s); } break; }
        UN_INT_FUNCS(X)
#undef X
#define X(fn) case OP_##fn: { have = isf && has_##fn<V, V, IV>::value && has_##fn<T, T, IT>::value; if (!have) break; uint64_t el[VP_MAXL]; long ev[VP_MAXL]; \
        for (unsigned i = 0; i < W; ++i) { ev[i] = decode_exp(c->v[1][i]); el[i] = (uint64_t)(int64_t)ev[i] & elem<IT>::mask(); } \
        V r{}; Call<has_##fn<V, V, IV>::value>::go(fn_##fn(), r, va, mk<IV>(el)); rd<V>(r, x.vres); \
        for (unsigned i = 0; i < W; ++i) { T s{}; Call<has_##fn<T, T, IT>::value>::go(fn_##fn(), s, x.sa(i), (IT)ev[i]); x.sres[i] = elem<T>::to_bits(s); } break; }
        EXP_FUNCS(X)
#undef X
    case OP_frexp: { have = isf && has_frexp<V, V, IV*>::value && has_frexp<T, T, IT*>::value; if (!have) break; uint64_t pz[VP_MAXL]; for (unsigned i = 0; i < W; ++i) pz[i] = 0x5A5A5A5A5A5A5A5Aull & elem<IT>::mask(); IV e = mk<IV>(pz); V r{}; IV* ep = &e; Call<has_frexp<V, V, IV*>::value>::go(fn_frexp(), r, va, ep); rd<V>(r, x.vres); rd<IV>(e, x.vres2); x.two = true;
        for (unsigned i = 0; i < W; ++i) { IT se = (IT)0x5A5A5A5A; IT* sp = &se; T s{}; Call<has_frexp<T, T, IT*>::value>::go(fn_frexp(), s, x.sa(i), sp); x.sres[i] = elem<T>::to_bits(s); x.sres2[i] = elem<IT>::to_bits(se);
            typedef FB<typename std::conditional<std::is_floating_point<T>::value, T, float>::type> F; if (F::isnan(x.a[i]) || F::isinf(x.a[i])) x.sres2[i] = x.vres2[i]; }   // exponent for inf/NaN is unspecified
        break; }
    default: break;
    }
    if (!have) { o->status = 2; return; }
    x.classify();
    x.compare(OPS[op].name);
}

extern "C" void vp_run(const VpCase* c, VpOutcome* o) {
    switch (c->target) {
#define X(n) case T_##n: run<avel::n>(c, o); return;
        VP_ALL_VECS(X)
#undef X
    default: o->status = 2; return;
    }
}

extern "C" void vp_enum(int tier, uint64_t seed, uint32_t shard, uint32_t nshards, void (*emit)(const VpCase*, void*), void* ctx) {
    uint32_t nt; const VpTarget* T = vp_targets(&nt);
    uint64_t job = 0;
    for (uint32_t t = 0; t < nt; ++t) {
        if (!T[t].present) continue;
        const unsigned W = T[t].width, B = T[t].bits; const bool isf = T[t].cls == 2;
        std::vector<uint64_t> L = isf ? vpl::flt_lattice(B) : vpl::int_lattice(B), S = isf ? vpl::flt_lattice_small(B) : vpl::int_lattice(B);
        if (!isf && B == 8) { L.clear(); for (unsigned x = 0; x < 256; ++x) L.push_back(x); S = L; }
        if (!isf && B == 16) { L.clear(); for (unsigned x = 0; x < 65536; ++x) L.push_back(x); }
        for (unsigned op = 0; op < OP_COUNT; ++op) {
            if ((job++ % nshards) != shard) continue;
            { VpCase p; std::memset(&p, 0, sizeof p); p.target = t; p.op = op; p.v[1][0] = 1; p.v[2][0] = 2; VpOutcome po; std::memset(&po, 0, sizeof po); vp_run(&p, &po); if (po.status == 2) continue; }
            const unsigned nops = (OPS[op].vk[1] != VK_NONE ? 2 : 1) + (OPS[op].vk[2] != VK_NONE ? 1 : 0);
            const bool is_exp = (op == OP_ldexp || op == OP_scalbn), is_rot = (op == OP_rotl || op == OP_rotr);
            VpCase c; std::memset(&c, 0, sizeof c); c.target = t; c.op = op;
            size_t fill = 0; uint64_t rot = seed + op, cnt = 0;
            const std::vector<uint64_t>& A = (nops == 1 && !is_exp) ? L : S;
            const size_t nb = (nops >= 2 && !is_exp) ? A.size() : (is_exp ? 268 : 1);
            const size_t bstep = (!is_exp && nb > 64 && (tier == 0 || nops == 3)) ? (nb / 48 + 1) : 1;
            for (size_t i = 0; i < A.size(); ++i)
                for (size_t j = (i % bstep); j < nb; j += bstep) {
                    unsigned lane = (unsigned)((fill + rot) % W);
                    c.v[0][lane] = A[i];
                    c.v[1][lane] = is_exp ? (uint64_t)(int64_t)(((long)j - 134) * 3 + (long)(i % 3)) : (nops >= 2 ? A[j] : 0);   // every exponent in -402..401 over three values
                    c.v[2][lane] = A[(i * 31 + j * 7 + 3) % A.size()];
                    c.v[3][lane] = (cnt + lane) & 1;
                    if (++fill == W) { if (is_rot) c.s[0] = (int64_t)((cnt * 7) % 140) - 70; emit(&c, ctx); fill = 0; ++rot; ++cnt; }
                }
            if (fill) emit(&c, ctx);
        }
    }
}

template<class V> static void sweep32(unsigned t, uint64_t seed, int tier, uint32_t shard, uint32_t nshards, void (*emit)(const VpCase*, void*), void* ctx, uint64_t* evals, uint64_t* lanes) {
    const unsigned W = V::width;
    const uint64_t stride = tier ? 1 : 2053;
    const bool isf = std::is_floating_point<typename V::scalar>::value;
    for (unsigned op = 0; op < OP_frexp + 1; ++op) {
        if (OPS[op].vk[1] != VK_NONE || OPS[op].vk[3] != VK_NONE || OPS[op].sk[0] != SK_NONE) continue;    // unary functions only
        VpCase c; std::memset(&c, 0, sizeof c); c.target = t; c.op = op;
        { VpOutcome po; std::memset(&po, 0, sizeof po); run<V>(&c, &po); if (po.status == 2) continue; }
        if (!tier && !isf && op > OP_abs) continue;
        bool failed = false;
        for (uint64_t base = ((seed * 5 + op) % stride) + (uint64_t)shard * W * stride; base < (1ull << 32) && !failed; base += (uint64_t)nshards * W * stride) {
            for (unsigned i = 0; i < W; ++i) c.v[0][i] = (base + i * stride) & 0xFFFFFFFFull;
            VpOutcome o; std::memset(&o, 0, sizeof o); o.bad_lane = -1;
            run<V>(&c, &o);
            ++*evals; *lanes += o.lanes_compared;
            if (o.status == 1) { emit(&c, ctx); failed = true; }
        }
    }
}
extern "C" void vp_sweep(int tier, uint64_t seed, uint32_t shard, uint32_t nshards, void (*emit)(const VpCase*, void*), void* ctx, uint64_t* evals, uint64_t* lanes, char* d, size_t cap) {
#define X(n) if (sizeof(avel::n::scalar) == 4) sweep32<avel::n>(T_##n, seed, tier, shard, nshards, emit, ctx, evals, lanes);
    VP_ALL_VECS(X)
#undef X
    if (tier) std::snprintf(d, cap, "every 8-bit and 16-bit input for every unary function; all 8-bit pairs for the binary ones;every 32-bit input (integer and binary32) for every unary function, scalar overload vs every lane of every width");
    else std::snprintf(d, cap, "every 8-bit and 16-bit input for every unary function with a scalar overload and a vector form; all 8-bit input pairs for the binary ones (deterministic phase)");
}
