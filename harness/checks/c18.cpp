// C18: Aligned_allocator: aligned, usable, non-overlapping storage for any history (stateful / model-based).
#define VP_CHECK_OBJECT
#include "../vp.hpp"
#include <avel/Aligned_allocator.hpp>
#include <vector>

using namespace vp;

struct alignas(16) S16 { unsigned char b[16]; };
struct alignas(64) S64 { unsigned char b[64]; };
struct B3 { unsigned char b[3]; };                 // sizeof > alignof: element larger than the alignment
struct B24 { unsigned long long q[3]; };
struct alignas(16) B48 { unsigned char b[48]; };

#define ALLOC_TABLE(X) \
    X(0, char, 1) X(1, char, 16) X(2, char, 32) X(3, char, 64) X(4, char, 4096) X(5, unsigned short, 2) X(6, unsigned short, 32) X(7, unsigned int, 4) X(8, unsigned int, 64) \
    X(9, unsigned long long, 8) X(10, unsigned long long, 128) X(11, S16, 16) X(12, S16, 256) X(13, S64, 64) X(14, S64, 1024) X(15, unsigned char, 8) \
    X(16, B3, 1) X(17, B3, 2) X(18, B24, 8) X(19, B24, 16) X(20, B48, 16) X(21, B3, 64)
enum { NTARGETS = 22 };

extern "C" const VpTarget* vp_targets(uint32_t* n) {
    static VpTarget t[NTARGETS];
    static bool init = false;
    if (!init) {
#define X(i, T, A) t[i].name = "Aligned_allocator<" #T "," #A ">"; t[i].width = 1; t[i].bits = 8 * sizeof(T) > 64 ? 64 : 8 * sizeof(T); t[i].cls = 3; t[i].present = 1;
        ALLOC_TABLE(X)
#undef X
        init = true;
    }
    *n = NTARGETS; return t;
}
enum { OP_HISTORY, OP_COUNT };
static const VpOp OPS[] = { {"history", {VK_CMDS}, {}, 1} };
enum { CL_THREE_LIVE, CL_NON_LIFO, CL_ODD_SIZE, CL_ZERO_N, CL_REBIND, CL_CONTAINER, CL_LEN_GE_10, CL_ORDINARY };
static const char* const CLASSES[] = {"three_or_more_live_blocks", "non_lifo_deallocation", "size_not_multiple_of_alignment_or_size_t", "allocate_zero", "rebind_allocate", "std_vector_with_allocator", "history_length_ge_10", "ordinary"};
extern "C" const char* vp_property(void) { return "C18"; }
extern "C" const VpOp* vp_ops(uint32_t* n) { *n = OP_COUNT; return OPS; }
extern "C" const char* const* vp_class_names(uint32_t* n) { *n = 8; return CLASSES; }
extern "C" const char* vp_rule(void) {
    return "a case is a history of allocate(n) / deallocate(block) / fill / verify / rebind-allocate / std::vector operations on one Aligned_allocator<T,A> instantiation, checked after every command "
           "against a shadow map of live ranges (alignment, pairwise disjointness, every byte of every live block still holds its pattern) and closed by deallocating every block with its own n; "
           "non-trivial = at least three simultaneously live blocks, a deallocation that is not LIFO and a size that is not a multiple of A or sizeof(size_t); distinct = distinct hash of the history";
}

template<class T, std::size_t A> struct Machine {
    typedef avel::Aligned_allocator<T, A> Alloc;
    struct Block { T* p; std::size_t n; unsigned char pat; };
    std::vector<Block> live; VpOutcome* o; unsigned step; const char* last;
    Alloc al;
    static std::size_t cap_bytes() { static std::size_t b = 0; if (!b) { const char* t = std::getenv("VP_TIER"); b = (t && t[0] == 't') ? 65536 : 4096; } return b; }
    static std::size_t cap_n() { return cap_bytes() / sizeof(T) > 4 ? cap_bytes() / sizeof(T) : 4; }

    bool check_new(T* p, std::size_t n) {
        if (n && !p) { fail(o, -1, "null_pointer", "step %u (%s): allocate(%zu) returned nullptr", step, last, n); return false; }
        if (p && (reinterpret_cast<std::uintptr_t>(p) % A)) { fail(o, -1, "misaligned_pointer", "step %u (%s): allocate(%zu) returned %p, not aligned to %zu", step, last, n, (void*)p, (std::size_t)A); return false; }
        const char* b = reinterpret_cast<const char*>(p), * e = b + n * sizeof(T);
        for (std::size_t i = 0; i < live.size(); ++i) {
            const char* lb = reinterpret_cast<const char*>(live[i].p), * le = lb + live[i].n * sizeof(T);
            if (n && live[i].n && b < le && lb < e) { fail(o, -1, "overlapping_blocks", "step %u (%s): new block [%p,+%zu) overlaps live block %zu", step, last, (void*)p, n * sizeof(T), i); return false; }
        }
        return true;
    }
    void fill(Block& k) { unsigned char* q = reinterpret_cast<unsigned char*>(k.p); for (std::size_t i = 0; i < k.n * sizeof(T); ++i) q[i] = (unsigned char)(k.pat + i * 7); }
    bool verify_all() {
        for (std::size_t j = 0; j < live.size(); ++j) {
            const unsigned char* q = reinterpret_cast<const unsigned char*>(live[j].p);
            for (std::size_t i = 0; i < live[j].n * sizeof(T); ++i)
                if (q[i] != (unsigned char)(live[j].pat + i * 7)) { fail(o, -1, "block_contents_changed", "step %u (%s): byte %zu of live block %zu (n=%zu) changed", step, last, i, j, live[j].n); return false; }
            ++o->lanes_compared;
        }
        return true;
    }
    void run(const VpCase* c) {
        const uint64_t* w = &c->v[0][0];
        int64_t len = c->s[3]; if (len < 0) len = 0; if (len > VP_NOPER * VP_MAXL) len = VP_NOPER * VP_MAXL;
        if (len >= 10) o->classes |= 1u << CL_LEN_GE_10;
        bool three = false, nonlifo = false, odd = false;
        for (int64_t s = 0; s < len && o->status != 1; ++s) {
            const uint64_t x = w[s];
            unsigned cmd = (unsigned)(x & 7);
            step = (unsigned)s + 1;
            // size: biased to odd byte sizes, zero, exact multiples of A, cap
            std::size_t n = (std::size_t)((x >> 8) & 0xFFFF);
            switch ((x >> 4) & 7) { case 0: n = 0; break; case 1: n = 1; break; case 2: n = n % 9; break; case 3: n = (n % 64) * A / (sizeof(T) > A ? A : sizeof(T)) / (A / (sizeof(T) > A ? A : sizeof(T)) ? 1 : 1); break; case 4: n = (n | 1) % 257; break; default: break; }
            n %= (cap_n() + 1);
            if (cmd <= 1 || cmd == 7) {
                last = cmd == 7 ? "reallocate" : "allocate";
                T* p = al.allocate(n);
                if (!check_new(p, n)) { if (p) { Block b{p, n, 0}; live.push_back(b); } break; }
                Block b{p, n, (unsigned char)(x >> 24)}; fill(b); live.push_back(b);
                if (n == 0) o->classes |= 1u << CL_ZERO_N;
                if ((n * sizeof(T)) % A || (n * sizeof(T)) % sizeof(std::size_t)) odd = true;
                if (live.size() >= 3) three = true;
                if (cmd == 7 && live.size() >= 2) {   // move the contents of an older block here and free the old one (non-LIFO)
                    std::size_t k = (std::size_t)((x >> 32) % (live.size() - 1));
                    if (!verify_all()) break;
                    al.deallocate(live[k].p, live[k].n); live.erase(live.begin() + k); nonlifo = true;
                }
                if (!verify_all()) break;
            } else if (cmd == 2) {
                last = "deallocate";
                if (live.empty()) continue;
                std::size_t k = (std::size_t)((x >> 32) % live.size());
                if (k + 1 != live.size()) nonlifo = true;
                if (!verify_all()) break;
                al.deallocate(live[k].p, live[k].n); live.erase(live.begin() + k);
                if (!verify_all()) break;
            } else if (cmd == 3) {
                last = "fill";
                if (live.empty()) continue;
                std::size_t k = (std::size_t)((x >> 32) % live.size());
                live[k].pat = (unsigned char)(x >> 24); fill(live[k]);
                if (!verify_all()) break;
            } else if (cmd == 4) {
                last = "verify"; if (!verify_all()) break;
            } else if (cmd == 5) {
                last = "rebind_allocate";
                typedef typename Alloc::template rebind<unsigned char>::other RA;   // same alignment, byte elements
                RA ra; std::size_t m = (std::size_t)((x >> 8) & 0x3FF);
                unsigned char* q = ra.allocate(m);
                if (m && !q) { fail(o, -1, "null_pointer", "step %u: rebound allocate(%zu) returned nullptr", step, m); break; }
                if (q && (reinterpret_cast<std::uintptr_t>(q) % A)) { fail(o, -1, "misaligned_pointer", "step %u: rebound allocate(%zu) returned %p, not aligned to %zu", step, m, (void*)q, (std::size_t)A); ra.deallocate(q, m); break; }
                for (std::size_t i = 0; i < m; ++i) q[i] = (unsigned char)(i ^ 0x5A);
                bool okv = verify_all();
                ra.deallocate(q, m);
                o->classes |= 1u << CL_REBIND;
                if ((m % A) || (m % sizeof(std::size_t))) odd = true;
                if (!okv || !verify_all()) break;
            } else {
                last = "std_vector";
                o->classes |= 1u << CL_CONTAINER;
                std::vector<unsigned char, typename Alloc::template rebind<unsigned char>::other> v, u;
                std::size_t m = (std::size_t)((x >> 8) & 0x7FF);
                for (std::size_t i = 0; i < m; ++i) v.push_back((unsigned char)(i * 13 + 1));
                if (m && (reinterpret_cast<std::uintptr_t>(v.data()) % A)) { fail(o, -1, "misaligned_pointer", "step %u: vector data %p not aligned to %zu", step, (void*)v.data(), (std::size_t)A); break; }
                u = v; v.resize(m / 2); v.shrink_to_fit(); v.swap(u); std::vector<unsigned char, typename Alloc::template rebind<unsigned char>::other> z(std::move(u));
                bool good = v.size() == m && z.size() == m / 2;
                for (std::size_t i = 0; i < v.size() && good; ++i) if (v[i] != (unsigned char)(i * 13 + 1)) good = false;
                for (std::size_t i = 0; i < z.size() && good; ++i) if (z[i] != (unsigned char)(i * 13 + 1)) good = false;
                if (!good) { fail(o, -1, "container_contents", "step %u: std::vector with the allocator lost its contents (m=%zu)", step, m); break; }
                v.clear(); v.shrink_to_fit();
                if (!verify_all()) break;
            }
        }
        // every block is deallocated exactly once with its own n
        last = "final_deallocate";
        while (!live.empty()) { Block b = live.back(); live.pop_back(); if (b.p || b.n == 0) al.deallocate(b.p, b.n); }
        if (three) o->classes |= 1u << CL_THREE_LIVE;
        if (nonlifo) o->classes |= 1u << CL_NON_LIFO;
        if (odd) o->classes |= 1u << CL_ODD_SIZE;
        if (three && nonlifo && odd) o->nontrivial = 1; else o->classes |= 1u << CL_ORDINARY;
    }
};

extern "C" void vp_run(const VpCase* c, VpOutcome* o) {
    switch (c->target) {
#define X(i, T, A) case i: { Machine<T, A> m; m.o = o; m.step = 0; m.last = "init"; m.run(c); return; }
        ALLOC_TABLE(X)
#undef X
    default: o->status = 2; return;
    }
}

static uint64_t cmdw(unsigned cmd, unsigned szmode, unsigned n, unsigned pat, unsigned k) { return (uint64_t)cmd | ((uint64_t)szmode << 4) | ((uint64_t)n << 8) | ((uint64_t)pat << 24) | ((uint64_t)k << 32); }

extern "C" void vp_enum(int tier, uint64_t seed, uint32_t shard, uint32_t nshards, void (*emit)(const VpCase*, void*), void* ctx) {
    uint64_t job = 0;
    for (uint32_t t = 0; t < NTARGETS; ++t) {
        if ((job++ % nshards) != shard) continue;
        // every size 0..N: allocate three blocks of neighbouring sizes, fill all (including the last byte), free the middle one first
        const unsigned maxn = tier ? 4096 : 300;
        for (unsigned n = 0; n <= maxn; n += (n < 130 ? 1 : 7)) {
            VpCase c; std::memset(&c, 0, sizeof c); c.target = t; c.op = OP_HISTORY;
            uint64_t* w = &c.v[0][0]; unsigned k = 0;
            w[k++] = cmdw(0, 7, n, 0x11, 0); w[k++] = cmdw(0, 7, n + 1, 0x22, 0); w[k++] = cmdw(0, 7, n ? n - 1 : 3, 0x33, 0);
            w[k++] = cmdw(3, 0, 0, 0x44, 1); w[k++] = cmdw(2, 0, 0, 0, 1); w[k++] = cmdw(5, 0, n, 0, 0); w[k++] = cmdw(7, 7, n + 2, 0x55, 0); w[k++] = cmdw(6, 0, n, 0, 0); w[k++] = cmdw(4, 0, 0, 0, 0);
            w[k++] = cmdw(2, 0, 0, 0, 0);
            c.s[3] = k; emit(&c, ctx);
        }
    }
}
extern "C" void vp_sweep(int tier, uint64_t, uint32_t, uint32_t, void (*)(const VpCase*, void*), void*, uint64_t*, uint64_t*, char* d, size_t cap) {
    std::snprintf(d, cap, "every n in 0..%s for 22 (T, A) instantiations in a fixed three-block history with a non-LIFO free, a rebound allocation and a std::vector", tier ? "4096 (stepped above 130)" : "300 (stepped above 130)");
}
