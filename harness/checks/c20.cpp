// C20: prefetch hints are pure hints: never a fault, never a change to memory.
#define VP_CHECK_OBJECT
#include "../vp.hpp"
#include <sys/mman.h>
#include <unistd.h>
#include <fcntl.h>

using namespace vp;

struct B64 { unsigned char b[64]; };
enum { OP_READ_BYTES, OP_WRITE_BYTES, OP_READ_T1, OP_READ_T4, OP_READ_T8, OP_READ_T64, OP_WRITE_T1, OP_WRITE_T4, OP_WRITE_T8, OP_WRITE_T64, OP_COUNT };
// s0 = pointer placement, s1 = n, s2 = offset inside the cache line, s3 = cache level
static const VpOp OPS[] = {
    {"prefetch_read_bytes", {}, {SK_SMALL, SK_RAW, SK_OFF, SK_SMALL}, 3}, {"prefetch_write_bytes", {}, {SK_SMALL, SK_RAW, SK_OFF, SK_SMALL}, 3},
    {"prefetch_read<char>", {}, {SK_SMALL, SK_RAW, SK_OFF, SK_SMALL}, 1}, {"prefetch_read<int>", {}, {SK_SMALL, SK_RAW, SK_OFF, SK_SMALL}, 1}, {"prefetch_read<double>", {}, {SK_SMALL, SK_RAW, SK_OFF, SK_SMALL}, 1}, {"prefetch_read<64-byte struct>", {}, {SK_SMALL, SK_RAW, SK_OFF, SK_SMALL}, 1},
    {"prefetch_write<char>", {}, {SK_SMALL, SK_RAW, SK_OFF, SK_SMALL}, 1}, {"prefetch_write<int>", {}, {SK_SMALL, SK_RAW, SK_OFF, SK_SMALL}, 1}, {"prefetch_write<double>", {}, {SK_SMALL, SK_RAW, SK_OFF, SK_SMALL}, 1}, {"prefetch_write<64-byte struct>", {}, {SK_SMALL, SK_RAW, SK_OFF, SK_SMALL}, 1},
};
enum { CL_TOUCHES_GUARD, CL_INSIDE_GUARD, CL_NULL, CL_N_ZERO, CL_MISALIGNED_TYPED, CL_LAST_BYTE, CL_ORDINARY, CL_ADDRESS_SPACE_END, CL_HUGE };
static const char* const CLASSES[] = {"range_reaches_into_inaccessible_page", "pointer_inside_inaccessible_page", "null_pointer", "n_zero", "misaligned_typed_pointer", "last_byte_before_inaccessible_page", "ordinary", "first_or_last_cache_line_of_the_address_space", "count_of_2MiB_16MiB_or_over_4GiB"};
extern "C" const char* vp_property(void) { return "C20"; }
extern "C" const VpOp* vp_ops(uint32_t* n) { *n = OP_COUNT; return OPS; }
extern "C" const char* const* vp_class_names(uint32_t* n) { *n = 9; return CLASSES; }
extern "C" const char* vp_rule(void) {
    return "a case is one prefetch_read / prefetch_write call (untyped or typed, cache level L1/L2/L3) with a pointer placed inside accessible memory, at the last byte before a PROT_NONE page, "
           "inside the PROT_NONE page, null, misaligned, or in the first / last cache line of the address space (range ending at the last byte), and a count from 0 to three pages (plus a few counts of 2 MiB, 16 MiB and just over 4 GiB); any signal, any changed byte of the arena or any changed page protection fails; non-trivial = a range that "
           "touches or lies inside an inaccessible page, a null pointer or n = 0; distinct = distinct hash of the Case";
}
extern "C" const VpTarget* vp_targets(uint32_t* n) { static VpTarget t = {"prefetch", 1, 8, 3, 1}; *n = 1; return &t; }

static unsigned char* g_arena = nullptr; static size_t g_page = 4096;
static inline unsigned char sentinel(size_t i) { return (unsigned char)(0x3C ^ (i * 197) ^ (i >> 7)); }
static void arena_init() {
    if (g_arena) return;
    g_page = (size_t)sysconf(_SC_PAGESIZE);
    void* p = mmap(nullptr, 6 * g_page, PROT_READ | PROT_WRITE, MAP_PRIVATE | MAP_ANONYMOUS, -1, 0);
    if (p == MAP_FAILED) std::abort();
    g_arena = (unsigned char*)p;   // [NONE][RW][RW][NONE][NONE][NONE]
    for (size_t i = 0; i < 2 * g_page; ++i) g_arena[g_page + i] = sentinel(i);
    mprotect(g_arena, g_page, PROT_NONE);
    mprotect(g_arena + 3 * g_page, 3 * g_page, PROT_NONE);
}
// protections of the six arena pages as seen by the kernel: bit i set = page i is readable
static unsigned arena_protections() {
    int fd = open("/proc/self/maps", O_RDONLY); if (fd < 0) return 0xFFFFFFFFu;
    static char buf[1 << 16]; size_t len = 0; ssize_t r;
    while ((r = read(fd, buf + len, sizeof buf - 1 - len)) > 0) len += (size_t)r;
    close(fd); buf[len] = 0;
    unsigned bits = 0;
    for (char* line = buf; line && *line; ) {
        unsigned long lo = 0, hi = 0; char perms[8] = {0};
        if (sscanf(line, "%lx-%lx %7s", &lo, &hi, perms) == 3)
            for (unsigned k = 0; k < 6; ++k) { unsigned long a = (unsigned long)(g_arena + k * g_page); if (a >= lo && a < hi && perms[0] == 'r') bits |= 1u << k; }
        line = std::strchr(line, '\n'); if (line) ++line;
    }
    return bits;
}

template<class T, int LVL> static void call_typed(bool write, const T* p, size_t n) {
    if (write) avel::prefetch_write<(avel::Cache_level)LVL>(p, n); else avel::prefetch_read<(avel::Cache_level)LVL>(p, n);
}
template<class T> static void typed(bool write, unsigned lvl, const void* p, size_t n) {
    const T* q = reinterpret_cast<const T*>(p);
    switch (lvl) { case 0: call_typed<T, 0>(write, q, n); break; case 1: call_typed<T, 1>(write, q, n); break; default: call_typed<T, 2>(write, q, n); break; }
}
static void untyped(bool write, unsigned lvl, const void* p, size_t n) {
    if (write) { switch (lvl) { case 0: avel::prefetch_write<avel::L1_CACHE>(p, n); break; case 1: avel::prefetch_write<avel::L2_CACHE>(p, n); break; default: avel::prefetch_write<avel::L3_CACHE>(p, n); break; } }
    else { switch (lvl) { case 0: avel::prefetch_read<avel::L1_CACHE>(p, n); break; case 1: avel::prefetch_read<avel::L2_CACHE>(p, n); break; default: avel::prefetch_read<avel::L3_CACHE>(p, n); break; } }
}

extern "C" void vp_run(const VpCase* c, VpOutcome* o) {
    if (c->target != 0) { o->status = 2; return; }
    arena_init();
    const unsigned op = c->op;
    const unsigned place = (unsigned)(c->s[0] < 0 ? -c->s[0] : c->s[0]) % 10, off = (unsigned)(c->s[2] < 0 ? -c->s[2] : c->s[2]) % 64, lvl = (unsigned)(c->s[3] < 0 ? -c->s[3] : c->s[3]) % 3;
    const size_t esz = (op == OP_READ_T4 || op == OP_WRITE_T4) ? 4 : (op == OP_READ_T8 || op == OP_WRITE_T8) ? 8 : (op == OP_READ_T64 || op == OP_WRITE_T64) ? 64 : 1;
    size_t nbytes = (size_t)((uint64_t)c->s[1] % (3 * g_page + 1));      // the loop is linear in n: bounded to three pages in the bulk of the cases
    if (((uint64_t)c->s[1] >> 60) == 0xF) nbytes = 0;
    // a few large counts (s1 tagged 0xE5A1 / 0xD5A1 / 0xC5A1 in its top 16 bits, so that random counts practically never are): just over 4 GiB (a 32-bit loop counter wraps), 16 MiB and just over 2 MiB
    // (a count-dependent path); about 0.05 s per call for the largest
    bool huge = false;
    if (((uint64_t)c->s[1] >> 48) == 0xE5A1) { nbytes = ((size_t)1 << 32) + (size_t)((uint64_t)c->s[1] & 0xFFFF); huge = true; }
    else if (((uint64_t)c->s[1] >> 48) == 0xD5A1) { nbytes = ((size_t)1 << 24) + (size_t)((uint64_t)c->s[1] & 0xFFF); huge = true; }
    else if (((uint64_t)c->s[1] >> 48) == 0xC5A1) { nbytes = ((size_t)1 << 21) + (size_t)((uint64_t)c->s[1] & 0xFFF); huge = true; }
    size_t n = nbytes / esz;
    unsigned char* rw = g_arena + g_page;
    const unsigned char* p;
    bool nt = false;
    auto cls = [&](unsigned k) { o->classes |= 1u << k; nt = true; };
    switch (place) {
    case 0: case 1: p = rw + (size_t)(((uint64_t)c->s[1] >> 20) % g_page) / 64 * 64 + off; break;      // anywhere in the accessible pages
    case 2: p = rw + 2 * g_page - 1 - (off % 8) * (esz > 1 ? esz : 1) * 0; cls(CL_LAST_BYTE); break;       // the last accessible byte
    case 3: p = rw + 2 * g_page - 64 + off; break;                                                         // last cache line before the guard
    case 4: p = rw + 2 * g_page + off; cls(CL_INSIDE_GUARD); break;                                         // inside the PROT_NONE page
    case 5: p = nullptr; cls(CL_NULL); break;
    case 6: p = g_arena + off; cls(CL_INSIDE_GUARD); break;                                                 // leading guard page
    case 7: p = rw + 1 + off; break;                                                                         // misaligned for typed pointers
    case 8: p = reinterpret_cast<const unsigned char*>(~(uintptr_t)0 - off);                                 // last cache line of the address space; the range ends at the last byte at most
            { size_t room = (size_t)off + 1; if (nbytes > room) nbytes = room; n = nbytes / esz; } cls(CL_ADDRESS_SPACE_END); break;
    default: p = reinterpret_cast<const unsigned char*>((uintptr_t)1 + off); cls(CL_ADDRESS_SPACE_END); break; // first (unmapped) cache line
    }
    if (p && esz > 1 && ((uintptr_t)p % esz)) cls(CL_MISALIGNED_TYPED);
    if (n == 0) cls(CL_N_ZERO);
    if (huge) cls(CL_HUGE);
    if (p && p >= rw && p < rw + 2 * g_page && p + n * esz > rw + 2 * g_page) cls(CL_TOUCHES_GUARD);
    if (nt) o->nontrivial = 1; else o->classes |= 1u << CL_ORDINARY;
    const bool write = (op == OP_WRITE_BYTES || op >= OP_WRITE_T1);
    // the kernel's view of the page protections is read back (through /proc/self/maps, ~10 us) after every third Case; the expected state is constant
    const bool check_prot = ((uint64_t)c->s[1] + off + lvl + op) % 3 == 0;
    switch (op) {
    case OP_READ_BYTES: case OP_WRITE_BYTES: untyped(write, lvl, p, n); break;
    case OP_READ_T1: case OP_WRITE_T1: typed<char>(write, lvl, p, n); break;
    case OP_READ_T4: case OP_WRITE_T4: typed<int>(write, lvl, p, n); break;
    case OP_READ_T8: case OP_WRITE_T8: typed<double>(write, lvl, p, n); break;
    default: typed<B64>(write, lvl, p, n); break;
    }
    ++o->lanes_compared;
    for (size_t i = 0; i < 2 * g_page; ++i) if (rw[i] != sentinel(i)) { fail(o, -1, "memory_changed", "%s changed byte %zu of the arena", OPS[op].name, i); rw[i] = sentinel(i); return; }
    if (check_prot) {
        const unsigned after = arena_protections();
        if (after != 0x6u) fail(o, -1, "protection_changed", "%s: readable-page bitmap of the arena is %x (expected 6)", OPS[op].name, after);
    }
}

extern "C" void vp_enum(int tier, uint64_t seed, uint32_t shard, uint32_t nshards, void (*emit)(const VpCase*, void*), void* ctx) {
    uint64_t job = 0;
    const size_t ns[] = {0, 1, 2, 63, 64, 65, 127, 128, 129, 4095, 4096, 4097, 8191, 8192, 12288};
    for (unsigned op = 0; op < OP_COUNT; ++op)
        for (unsigned place = 0; place < 10; ++place) {
            if ((job++ % nshards) != shard) continue;
            if (place == 0 || place == 3 || place == 5) {
                // large counts: from accessible memory (running far beyond it), from the line before the guard page, from null
                for (unsigned lvl = 0; lvl < 3; ++lvl) for (uint64_t tagk : {0xEull, 0xDull, 0xCull}) {
                    // a 4 GiB call issues 2^26 hints (seconds when the range is unmapped): the untyped overloads only, one level per placement
                    // (all three in the thorough tier), never from inside the guard placement
                    if (tagk == 0xE && (op >= 2 || place == 3 || (!tier && lvl != (op + place + seed) % 3))) continue;
                    if (tagk != 0xE && !tier && lvl != (op + place + (unsigned)tagk + seed) % 3) continue;
                    VpCase c; std::memset(&c, 0, sizeof c); c.op = op; c.s[0] = place; c.s[1] = (int64_t)((((tagk << 12) | 0x5A1) << 48) | (uint64_t)(64 + op * 5 + lvl)); c.s[2] = (op * 7 + lvl) % 64; c.s[3] = lvl;
                    emit(&c, ctx);
                }
            }
            for (unsigned off = 0; off < 64; off += (tier ? 1 : (op < 2 ? 1 : 7)))
                for (size_t n : ns) for (unsigned lvl = 0; lvl < 3; ++lvl) {
                    VpCase c; std::memset(&c, 0, sizeof c); c.op = op; c.s[0] = place; c.s[1] = (int64_t)(n | ((uint64_t)((seed + off) % 4096) << 20)); c.s[2] = off; c.s[3] = lvl;
                    emit(&c, ctx);
                }
        }
}
extern "C" void vp_sweep(int, uint64_t, uint32_t, uint32_t, void (*)(const VpCase*, void*), void*, uint64_t*, uint64_t*, char* d, size_t cap) {
    std::snprintf(d, cap, "every offset 0..63 of a cache line x 10 pointer placements x 15 counts (0 .. three pages) x 3 cache levels for the untyped overloads (typed overloads: every 7th offset in the quick tier)");
}
