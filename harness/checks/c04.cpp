// C04: bitwise ops, shifts (amounts 0..bits) and rotations are exact per lane.
#define VP_CHECK_OBJECT
#include "../vp.hpp"
#include "../lattice.hpp"

using namespace vp;

enum { OP_AND, OP_OR, OP_XOR, OP_NOT, OP_AND_A, OP_OR_A, OP_XOR_A,
       OP_SHL_S, OP_SHR_S, OP_SHL_SA, OP_SHR_SA, OP_SHL_V, OP_SHR_V, OP_SHL_VA, OP_SHR_VA,
       OP_SHL_CT, OP_SHR_CT, OP_ROTL_CT, OP_ROTR_CT, OP_ROTL_S, OP_ROTR_S, OP_ROTL_V, OP_ROTR_V,
       OP_SC_ROTL, OP_SC_ROTR, OP_META, OP_USAGE, OP_COUNT };
static const VpOp OPS[] = {
    {"and", {VK_INT, VK_INT_REL}, {}, 1}, {"or", {VK_INT, VK_INT_REL}, {}, 1}, {"xor", {VK_INT, VK_INT_REL}, {}, 1}, {"not", {VK_INT}, {}, 1},
    {"and_assign", {VK_INT, VK_INT_REL}, {}, 1}, {"or_assign", {VK_INT, VK_INT_REL}, {}, 1}, {"xor_assign", {VK_INT, VK_INT_REL}, {}, 1},
    {"shl_scalar", {VK_INT}, {SK_AMT}, 2}, {"shr_scalar", {VK_INT}, {SK_AMT}, 2}, {"shl_assign_scalar", {VK_INT}, {SK_AMT}, 1}, {"shr_assign_scalar", {VK_INT}, {SK_AMT}, 1},
    {"shl_vector", {VK_INT, VK_AMT}, {}, 3}, {"shr_vector", {VK_INT, VK_AMT}, {}, 3}, {"shl_assign_vector", {VK_INT, VK_AMT}, {}, 1}, {"shr_assign_vector", {VK_INT, VK_AMT}, {}, 1},
    {"bit_shift_left_ct", {VK_INT}, {SK_AMT}, 2}, {"bit_shift_right_ct", {VK_INT}, {SK_AMT}, 2},
    {"rotl_ct", {VK_INT}, {SK_SMALL, SK_AMT}, 2}, {"rotr_ct", {VK_INT}, {SK_SMALL, SK_AMT}, 2},
    {"rotl_scalar", {VK_INT}, {SK_ANYLL}, 2}, {"rotr_scalar", {VK_INT}, {SK_ANYLL}, 2},
    {"rotl_vector", {VK_INT, VK_INT}, {}, 3}, {"rotr_vector", {VK_INT, VK_INT}, {}, 3},
    {"scalar_rotl", {VK_INT}, {SK_ANYLL}, 2}, {"scalar_rotr", {VK_INT}, {SK_ANYLL}, 2},
    {"metamorphic", {VK_INT, VK_AMT}, {SK_ANYLL}, 1},
    // usage forms: the same object as value and amount / on both sides of a compound assignment (x >>= x, x &= x, x = rotl(x, x) ...), and the reference
    // returned by a compound assignment used as an lvalue ((x <<= a) >>= a ...); s0 = form
    {"aliased_and_chained_forms", {VK_INT, VK_AMT, VK_INT}, {SK_SMALL}, 2},
};
enum { CL_AMT0, CL_AMT_BITS_M1, CL_AMT_BITS, CL_DISTINCT_NEIGHBOURS, CL_TOPBIT_SHR, CL_ROT_NEG, CL_ROT_MULT, CL_ORDINARY };
static const char* const CLASSES[] = {"amount_zero", "amount_bits_minus_1", "amount_equals_bits", "distinct_amounts_in_neighbouring_lanes",
                                      "top_bit_set_under_right_shift", "negative_rotation_amount", "rotation_amount_multiple_of_bits", "ordinary"};

extern "C" const char* vp_property(void) { return "C04"; }
extern "C" const VpOp* vp_ops(uint32_t* n) { *n = OP_COUNT; return OPS; }
extern "C" const char* const* vp_class_names(uint32_t* n) { *n = 8; return CLASSES; }
extern "C" const char* vp_rule(void) {
    return "a case is one value vector, an operation form and its amount(s); non-trivial = an amount in {0, bits-1, bits} in some lane, "
           "or distinct amounts in neighbouring lanes, or a value with the top bit set under a right shift, or a negative / multiple-of-bits "
           "rotation amount; distinct = distinct hash of the whole Case";
}
#define INTCLS(c) ((c) != 2)
VP_DEFINE_VECTOR_TARGETS(INTCLS)

template<class T> static uint64_t r_shl(uint64_t x, uint64_t s) { const uint64_t m = elem<T>::mask(); return s >= elem<T>::bits ? 0 : ((x & m) << s) & m; }
template<class T> static uint64_t r_shr(uint64_t x, uint64_t s) {
    const unsigned B = elem<T>::bits; const uint64_t m = elem<T>::mask();
    x &= m;
    if (elem<T>::is_signed) {
        bool neg = (x >> (B - 1)) & 1;
        if (s >= B) return neg ? m : 0;
        uint64_t r = x >> s;
        if (neg && s) r |= (m & ~(m >> s));
        return r & m;
    }
    return s >= B ? 0 : (x >> s);
}
template<class T> static uint64_t r_rotl(uint64_t x, int64_t s) {
    const unsigned B = elem<T>::bits; const uint64_t m = elem<T>::mask();
    unsigned k = (unsigned)((uint64_t)s & (B - 1));
    x &= m;
    return k ? (((x << k) | (x >> (B - k))) & m) : x;
}
template<class T> static uint64_t r_rotr(uint64_t x, int64_t s) {
    const unsigned B = elem<T>::bits;
    unsigned k = (unsigned)((uint64_t)s & (B - 1));
    return r_rotl<T>(x, (int64_t)((B - k) & (B - 1)));
}

// compile-time forms
template<class V> struct CtShl { V x, r; template<unsigned I> void at() { r = avel::bit_shift_left<I>(x); } };
template<class V> struct CtShr { V x, r; template<unsigned I> void at() { r = avel::bit_shift_right<I>(x); } };
template<class V> struct CtRotl { V x, r; template<unsigned I> void at() { r = avel::rotl<I>(x); } };
template<class V> struct CtRotr { V x, r; template<unsigned I> void at() { r = avel::rotr<I>(x); } };
template<class V, unsigned B> struct CtRotlBig { V x, r; template<unsigned I> void at() { r = avel::rotl<(I == 0 ? B : I == 1 ? B + 1 : I == 2 ? 2 * B + 3 : 5 * B - 1)>(x); } };
template<class V, unsigned B> struct CtRotrBig { V x, r; template<unsigned I> void at() { r = avel::rotr<(I == 0 ? B : I == 1 ? B + 1 : I == 2 ? 2 * B + 3 : 5 * B - 1)>(x); } };

template<class V> static void run(const VpCase* c, VpOutcome* o) {
    typedef typename V::scalar T;
    const unsigned W = V::width, B = elem<T>::bits;
    const uint64_t m = elem<T>::mask();
    const unsigned op = c->op;
    V a = mk<V>(c->v[0]);
    uint64_t bl[VP_MAXL], exp[VP_MAXL], got[VP_MAXL];
    for (unsigned i = 0; i < W; ++i) bl[i] = c->v[1][i] & m;
    const bool vec_amt = (op >= OP_SHL_V && op <= OP_SHR_VA) || op == OP_META;
    if (vec_amt) for (unsigned i = 0; i < W; ++i) bl[i] = c->v[1][i] % (B + 1);
    V b = mk<V>(bl);
    poison_below(c->v[0][0] ^ (uint64_t)c->s[0]);
    int64_t s = c->s[0];
    bool nt = false;
    auto amt_class = [&](uint64_t k) {
        if (k == 0) { o->classes |= 1u << CL_AMT0; nt = true; }
        if (k == B - 1) { o->classes |= 1u << CL_AMT_BITS_M1; nt = true; }
        if (k == B) { o->classes |= 1u << CL_AMT_BITS; nt = true; }
    };
    auto topbit_class = [&]() { for (unsigned i = 0; i < W; ++i) if ((c->v[0][i] >> (B - 1)) & 1) { o->classes |= 1u << CL_TOPBIT_SHR; nt = true; break; } };
    auto rot_class = [&](int64_t k) {
        if (k < 0) { o->classes |= 1u << CL_ROT_NEG; nt = true; }
        if ((k % (int64_t)B) == 0) { o->classes |= 1u << CL_ROT_MULT; nt = true; }
    };
    if (op == OP_USAGE) {
        const unsigned form = (unsigned)(s < 0 ? -s : s) % 14;
        uint64_t xl[VP_MAXL], al[VP_MAXL], cl[VP_MAXL];
        for (unsigned i = 0; i < W; ++i) { xl[i] = c->v[0][i] & m; al[i] = c->v[1][i] % (B + 1); cl[i] = c->v[2][i] & m; if (form <= 1 || form == 7) xl[i] %= (B + 1); }   // a value that is its own shift amount lies in 0..bits
        V x = mk<V>(xl), am = mk<V>(al), cz = mk<V>(cl);
        auto rotk = [&](uint64_t v) { return elem<T>::is_signed ? elem<T>::sval(v) : (int64_t)(v % B); };
        static const char* const nm[14] = {"x <<= x", "x >>= x", "x &= x", "x |= x", "x ^= x", "x = rotl(x, x)", "x = rotr(x, x)", "x = x << x",
                                           "(x <<= a) >>= a", "(x >>= a) <<= a", "(x &= c) |= a", "(x |= c) ^= a", "(x ^= c) &= a", "(x <<= a) |= c"};
        for (unsigned i = 0; i < W; ++i) {
            const uint64_t v = xl[i], k = al[i], z = cl[i];
            switch (form) {
            case 0: case 7: exp[i] = r_shl<T>(v, v); break; case 1: exp[i] = r_shr<T>(v, v); break;
            case 2: case 3: exp[i] = v; break; case 4: exp[i] = 0; break;
            case 5: exp[i] = r_rotl<T>(v, rotk(v)); break; case 6: exp[i] = r_rotr<T>(v, rotk(v)); break;
            case 8: exp[i] = r_shr<T>(r_shl<T>(v, k), k); break; case 9: exp[i] = r_shl<T>(r_shr<T>(v, k), k); break;
            case 10: exp[i] = ((v & z) | k) & m; break; case 11: exp[i] = ((v | z) ^ k) & m; break; case 12: exp[i] = ((v ^ z) & k) & m; break;
            default: exp[i] = (r_shl<T>(v, k) | z) & m; break;
            }
            amt_class(form <= 1 || form == 7 ? v : k);
        }
        switch (form) {
        case 0: x <<= x; break; case 1: x >>= x; break; case 2: x &= x; break; case 3: x |= x; break; case 4: x ^= x; break;
        case 5: x = avel::rotl(x, x); break; case 6: x = avel::rotr(x, x); break; case 7: x = x << x; break;
        case 8: (x <<= am) >>= am; break; case 9: (x >>= am) <<= am; break; case 10: (x &= cz) |= am; break; case 11: (x |= cz) ^= am; break;
        case 12: (x ^= cz) &= am; break; default: (x <<= am) |= cz; break;
        }
        rd<V>(x, got);
        if (nt) o->nontrivial = 1; else o->classes |= 1u << CL_ORDINARY;
        char tag[96]; std::snprintf(tag, sizeof tag, "usage:%s", nm[form]);
        cmp_lanes(o, W, exp, got, nullptr, tag, nm[form]);
        return;
    }
    switch (op) {
    case OP_AND: for (unsigned i = 0; i < W; ++i) exp[i] = (c->v[0][i] & bl[i]) & m; rd<V>(a & b, got); break;
    case OP_OR:  for (unsigned i = 0; i < W; ++i) exp[i] = (c->v[0][i] | bl[i]) & m; rd<V>(a | b, got); break;
    case OP_XOR: for (unsigned i = 0; i < W; ++i) exp[i] = (c->v[0][i] ^ bl[i]) & m; rd<V>(a ^ b, got); break;
    case OP_NOT: for (unsigned i = 0; i < W; ++i) exp[i] = (~c->v[0][i]) & m; rd<V>(~a, got); break;
    case OP_AND_A: { for (unsigned i = 0; i < W; ++i) exp[i] = (c->v[0][i] & bl[i]) & m; V r = a; r &= b; rd<V>(r, got); break; }
    case OP_OR_A:  { for (unsigned i = 0; i < W; ++i) exp[i] = (c->v[0][i] | bl[i]) & m; V r = a; r |= b; rd<V>(r, got); break; }
    case OP_XOR_A: { for (unsigned i = 0; i < W; ++i) exp[i] = (c->v[0][i] ^ bl[i]) & m; V r = a; r ^= b; rd<V>(r, got); break; }
    case OP_SHL_S: case OP_SHL_SA: case OP_SHR_S: case OP_SHR_SA: case OP_SHL_CT: case OP_SHR_CT: {
        uint64_t k = (uint64_t)(s < 0 ? -s : s) % (B + 1);
        amt_class(k);
        bool left = (op == OP_SHL_S || op == OP_SHL_SA || op == OP_SHL_CT);
        if (!left) topbit_class();
        for (unsigned i = 0; i < W; ++i) exp[i] = left ? r_shl<T>(c->v[0][i], k) : r_shr<T>(c->v[0][i], k);
        if (op == OP_SHL_S) rd<V>(a << (long long)k, got);
        else if (op == OP_SHR_S) rd<V>(a >> (long long)k, got);
        else if (op == OP_SHL_SA) { V r = a; r <<= (long long)k; rd<V>(r, got); }
        else if (op == OP_SHR_SA) { V r = a; r >>= (long long)k; rd<V>(r, got); }
        else if (op == OP_SHL_CT) { CtShl<V> f; f.x = a; f.r = a; dispatch<B + 1>::go((unsigned)k, f); rd<V>(f.r, got); }
        else { CtShr<V> f; f.x = a; f.r = a; dispatch<B + 1>::go((unsigned)k, f); rd<V>(f.r, got); }
        break;
    }
    case OP_SHL_V: case OP_SHL_VA: case OP_SHR_V: case OP_SHR_VA: {
        bool left = (op == OP_SHL_V || op == OP_SHL_VA);
        if (!left) topbit_class();
        for (unsigned i = 0; i < W; ++i) {
            amt_class(bl[i]);
            if (i && bl[i] != bl[i - 1]) { o->classes |= 1u << CL_DISTINCT_NEIGHBOURS; nt = true; }
            exp[i] = left ? r_shl<T>(c->v[0][i], bl[i]) : r_shr<T>(c->v[0][i], bl[i]);
        }
        if (op == OP_SHL_V) rd<V>(a << b, got);
        else if (op == OP_SHR_V) rd<V>(a >> b, got);
        else if (op == OP_SHL_VA) { V r = a; r <<= b; rd<V>(r, got); }
        else { V r = a; r >>= b; rd<V>(r, got); }
        break;
    }
    case OP_ROTL_CT: case OP_ROTR_CT: {
        // s[0] selects: 0..11 -> amount s[1] in 0..bits-1 ... ; 12..15 -> the big amounts bits, bits+1, 2*bits+3, 5*bits-1
        unsigned sel = (unsigned)(c->s[0] < 0 ? -c->s[0] : c->s[0]) % 16;
        uint64_t k;
        if (sel < 12) {
            k = (uint64_t)(c->s[1] < 0 ? -c->s[1] : c->s[1]) % (B + 1);
            if (op == OP_ROTL_CT) { CtRotl<V> f; f.x = a; f.r = a; dispatch<B + 1>::go((unsigned)k, f); rd<V>(f.r, got); }
            else { CtRotr<V> f; f.x = a; f.r = a; dispatch<B + 1>::go((unsigned)k, f); rd<V>(f.r, got); }
        } else {
            unsigned idx = sel - 12;
            k = idx == 0 ? B : idx == 1 ? B + 1 : idx == 2 ? 2 * B + 3 : 5 * B - 1;
            if (op == OP_ROTL_CT) { CtRotlBig<V, B> f; f.x = a; f.r = a; dispatch<4>::go(idx, f); rd<V>(f.r, got); }
            else { CtRotrBig<V, B> f; f.x = a; f.r = a; dispatch<4>::go(idx, f); rd<V>(f.r, got); }
        }
        amt_class(k); rot_class((int64_t)k);
        for (unsigned i = 0; i < W; ++i) exp[i] = op == OP_ROTL_CT ? r_rotl<T>(c->v[0][i], (int64_t)k) : r_rotr<T>(c->v[0][i], (int64_t)k);
        break;
    }
    case OP_ROTL_S: case OP_ROTR_S:
        rot_class(s); amt_class((uint64_t)s & (B - 1));
        for (unsigned i = 0; i < W; ++i) exp[i] = op == OP_ROTL_S ? r_rotl<T>(c->v[0][i], s) : r_rotr<T>(c->v[0][i], s);
        if (op == OP_ROTL_S) rd<V>(avel::rotl(a, (long long)s), got); else rd<V>(avel::rotr(a, (long long)s), got);
        break;
    case OP_ROTL_V: case OP_ROTR_V:
        for (unsigned i = 0; i < W; ++i) {
            int64_t k = elem<T>::is_signed ? elem<T>::sval(bl[i]) : (int64_t)bl[i];
            if (elem<T>::is_signed) rot_class(k); else if ((bl[i] % B) == 0) { o->classes |= 1u << CL_ROT_MULT; nt = true; }
            amt_class(bl[i] & (B - 1));
            if (i && bl[i] != bl[i - 1]) { o->classes |= 1u << CL_DISTINCT_NEIGHBOURS; nt = true; }
            exp[i] = op == OP_ROTL_V ? r_rotl<T>(c->v[0][i], (int64_t)bl[i]) : r_rotr<T>(c->v[0][i], (int64_t)bl[i]);
        }
        if (op == OP_ROTL_V) rd<V>(avel::rotl(a, b), got); else rd<V>(avel::rotr(a, b), got);
        break;
    case OP_SC_ROTL: case OP_SC_ROTR: {
        if (W != 1) { o->status = 2; return; }
        rot_class(s); amt_class((uint64_t)s & (B - 1));
        T x = elem<T>::from_bits(c->v[0][0]);
        T r = op == OP_SC_ROTL ? avel::rotl(x, (long long)s) : avel::rotr(x, (long long)s);
        exp[0] = op == OP_SC_ROTL ? r_rotl<T>(c->v[0][0], s) : r_rotr<T>(c->v[0][0], s);
        got[0] = elem<T>::to_bits(r);
        break;
    }
    default: {  // metamorphic relations
        uint64_t x[VP_MAXL], y[VP_MAXL];
        V r1 = avel::rotl(avel::rotr(a, (long long)s), (long long)s);
        rd<V>(r1, x); rd<V>(a, y);
        rot_class(s);
        if (nt) o->nontrivial = 1;
        if (!cmp_lanes(o, W, y, x, nullptr, "meta:rotl_rotr", "rotl(rotr(x,s),s) == x")) return;
        // (x << k) >> k == x & lowmask  (unsigned image), per-lane k
        typedef typename std::make_unsigned<T>::type UT;
        typedef avel::Vector<UT, V::width> UV;
        UV ua = mk<UV>(c->v[0]), ub = mk<UV>(bl);
        rd<UV>((ua << ub) >> ub, x);
        for (unsigned i = 0; i < W; ++i) { y[i] = bl[i] >= B ? 0 : ((c->v[0][i] & m) & (m >> bl[i])); amt_class(bl[i]); }
        if (nt) o->nontrivial = 1;
        if (!cmp_lanes(o, W, y, x, nullptr, "meta:shl_shr", "(x<<k)>>k == x & lowmask")) return;
        uint64_t z[VP_MAXL]; for (unsigned i = 0; i < W; ++i) z[i] = 0;
        rd<V>(a << (long long)B, x);
        if (!cmp_lanes(o, W, z, x, nullptr, "meta:shl_bits", "x << bits == 0")) return;
        return;
    }
    }
    if (nt) o->nontrivial = 1; else o->classes |= 1u << CL_ORDINARY;
    cmp_lanes(o, W, exp, got, nullptr, "value", OPS[op].name);
}

extern "C" void vp_run(const VpCase* c, VpOutcome* o) {
    switch (c->target) {
#define X(n) case T_##n: run<avel::n>(c, o); return;
        VP_INT_VECS(X)
#undef X
    default: o->status = 2; return;
    }
}

extern "C" void vp_enum(int tier, uint64_t seed, uint32_t shard, uint32_t nshards, void (*emit)(const VpCase*, void*), void* ctx) {
    uint32_t nt; const VpTarget* T = vp_targets(&nt);
    uint64_t job = 0;
    for (uint32_t t = 0; t < nt; ++t) {
        if (!T[t].present) continue;
        const unsigned W = T[t].width, B = T[t].bits;
        std::vector<uint64_t> L = vpl::int_lattice_small(B);
        if (B == 8) { L.clear(); for (unsigned x = 0; x < 256; ++x) L.push_back(x); }
        if (B == 16 && tier >= 1) { L.clear(); for (unsigned x = 0; x < 65536; ++x) L.push_back(x); }
        const size_t n = L.size();
        if ((job++ % nshards) == shard) {
            VpCase c; std::memset(&c, 0, sizeof c); c.target = t; c.op = OP_USAGE;
            const std::vector<uint64_t> S = vpl::int_lattice_small(B);
            for (unsigned form = 0; form < 14; ++form) {
                size_t fill = 0; uint64_t rot = seed + form;
                for (size_t i = 0; i < S.size() + B + 1; ++i) {
                    unsigned lane = (unsigned)((fill + rot) % W);
                    c.v[0][lane] = i < S.size() ? S[i] : (i - S.size()); c.v[1][lane] = (i + lane + form) % (B + 1); c.v[2][lane] = S[(i * 7 + 3) % S.size()];
                    if (++fill == W || i + 1 == S.size() + B + 1) { c.s[0] = form; emit(&c, ctx); fill = 0; ++rot; }
                }
            }
        }
        for (unsigned op = 0; op < OP_META; ++op) {
            if ((job++ % nshards) != shard) continue;
            VpCase c; std::memset(&c, 0, sizeof c); c.target = t; c.op = op;
            if (op <= OP_XOR_A) {
                // bitwise: lattice pairs (sampled diagonal bands; the operations are bit-sliced)
                size_t fill = 0;
                for (size_t i = 0; i < n; ++i)
                    for (size_t j = 0; j < n; j += (n > 20000 ? n / 48 : n > 300 ? 7 : 1)) {       // the exhaustive 16-bit value list of the thorough tier: 48 partners per value
                        c.v[0][fill] = L[i]; c.v[1][fill] = L[(j + i) % n];
                        if (++fill == W) { emit(&c, ctx); fill = 0; }
                    }
                if (fill) emit(&c, ctx);
                continue;
            }
            const bool scalar_rot = (op == OP_SC_ROTL || op == OP_SC_ROTR);
            if (scalar_rot && W != 1) continue;
            const bool vec_form = (op >= OP_SHL_V && op <= OP_SHR_VA) || op == OP_ROTL_V || op == OP_ROTR_V;
            const bool rot = op >= OP_ROTL_CT;
            // amounts: every amount 0..bits (shifts); rotations also negative and beyond-width amounts
            std::vector<int64_t> amts;
            for (int64_t k = 0; k <= (int64_t)B; ++k) amts.push_back(k);
            if (rot && op != OP_ROTL_CT && op != OP_ROTR_CT) {
                for (int64_t k : {-1ll, -2ll, -(long long)B, -(long long)B - 1, (long long)B + 1, 2ll * B, 2ll * B + 3, 255ll, 256ll, 257ll, -255ll, -256ll, 65535ll, 65536ll,
                                  (long long)INT32_MAX, (long long)INT32_MIN, 4294967295ll, 4294967296ll, 4294967297ll, (long long)INT64_MAX, (long long)INT64_MIN, -1000003ll, 1000003ll})
                    amts.push_back(k);
            }
            if (op == OP_ROTL_CT || op == OP_ROTR_CT) {
                size_t fill = 0;
                for (unsigned sel = 0; sel < 16; ++sel) {
                    if (sel > 0 && sel < 12) continue;
                    for (int64_t k = 0; k <= (sel < 12 ? (int64_t)B : 0); ++k) {
                        c.s[0] = sel; c.s[1] = k; fill = 0;
                        for (size_t i = 0; i < n; ++i) { c.v[0][fill] = L[i]; if (++fill == W) { emit(&c, ctx); fill = 0; } }
                        if (fill) emit(&c, ctx);
                    }
                }
                continue;
            }
            if (!vec_form) {
                for (int64_t k : amts) {
                    c.s[0] = k; size_t fill = 0;
                    for (size_t i = 0; i < n; ++i) { c.v[0][fill] = L[i]; if (++fill == W) { emit(&c, ctx); fill = 0; } }
                    if (fill) emit(&c, ctx);
                }
            } else {
                // each lane carries a different amount; all amounts visit all lanes
                for (size_t i = 0; i < n; ++i)
                    for (unsigned r = 0; r < amts.size(); r += (W >= amts.size() ? amts.size() : 1)) {
                        for (unsigned lane = 0; lane < W; ++lane) {
                            c.v[0][lane] = (lane % 3 == 0) ? L[i] : L[(i + lane * 17) % n];
                            int64_t k = amts[(r + lane) % amts.size()];
                            c.v[1][lane] = (uint64_t)k & (B == 64 ? ~0ull : ((1ull << B) - 1));
                        }
                        emit(&c, ctx);
                        if (n > 1000 && r >= 8) break;  // exhaustive-16 value sweep: amounts rotate with i anyway
                    }
            }
        }
    }
}

extern "C" void vp_sweep(int tier, uint64_t, uint32_t, uint32_t, void (*)(const VpCase*, void*), void*, uint64_t*, uint64_t*, char* d, size_t cap) {
    if (tier >= 1) std::snprintf(d, cap, "every 8-bit and 16-bit value x every shift amount 0..bits and rotation amount, all forms (deterministic phase)");
    else std::snprintf(d, cap, "every 8-bit value x every shift amount 0..8 and every rotation amount class, all forms (deterministic phase)");
}
