// C03: masks behave as vectors of booleans, whatever their representation (stateful / model-based).
#define VP_CHECK_OBJECT
#include "../vp.hpp"
#include <xmmintrin.h>
#include "../lattice.hpp"
#include <sys/mman.h>
#include <unistd.h>

using namespace vp;

enum { OP_HISTORY, OP_COUNT };
static const VpOp OPS[] = { {"history", {VK_CMDS}, {}, 1} };
enum { CL_NOT_OR_XOR, CL_INSERT_FALSE_INTO_SET, CL_INSERT_TRUE_INTO_CLEAR, CL_FROM_VECTOR_SPECIAL, CL_NONCANONICAL, CL_ARRAY_CTOR, CL_LEN_GE_10, CL_ORDINARY };
static const char* const CLASSES[] = {"contains_not_or_xor", "insert_false_into_set_lane", "insert_true_into_clear_lane", "mask_from_vector_with_special_lane",
                                      "noncanonical_representation_seen", "array_constructor", "history_length_ge_10", "ordinary"};

extern "C" const char* vp_property(void) { return "C03"; }
extern "C" const VpOp* vp_ops(uint32_t* n) { *n = OP_COUNT; return OPS; }
extern "C" const char* const* vp_class_names(uint32_t* n) { *n = 8; return CLASSES; }
extern "C" const char* vp_rule(void) {
    return "a case is a history of commands over four mask registers (& | ^ && || &= |= ^= ! insert<I> Mask(bool) Mask(array) =bool Mask(Vector(m)) set_bits(m)!=0 Mask(v)), "
           "checked against an array<bool,N> model through every observer after every command; non-trivial = the history contains ! or ^, or an insert<I>(m,false) "
           "into a set lane, or an insert<I>(m,true) into a clear lane, or a mask(vector) from -0.0/NaN/subnormal/single-byte lanes; distinct = distinct hash of the history";
}
#define ALLCLS(c) true
VP_DEFINE_VECTOR_TARGETS(ALLCLS)

enum { C_AND, C_OR, C_XOR, C_LAND, C_LOR, C_AND_A, C_OR_A, C_XOR_A, C_NOT, C_INSERT, C_FROM_BOOL, C_FROM_ARRAY, C_ASSIGN_BOOL, C_VEC_ROUNDTRIP, C_SETBITS_NE0, C_FROM_VECTOR, C_NCMD };
static const char* const CMDN[] = {"and", "or", "xor", "land", "lor", "and_assign", "or_assign", "xor_assign", "not", "insert", "from_bool", "from_array", "assign_bool",
                                   "mask_of_vector_of_mask", "set_bits_ne_0", "mask_from_vector"};

// std::array<bool,N> operands of the array constructor are placed in front of a PROT_NONE page: flush against it (an over-read faults)
// or one / three bytes before it (alignof(std::array<bool,N>) is 1, so an aligned-load instruction faults on them)
static unsigned char* bool_arena_end() {
    static unsigned char* end = nullptr;
    if (!end) {
        size_t pg = (size_t)sysconf(_SC_PAGESIZE);
        unsigned char* p = (unsigned char*)mmap(nullptr, 3 * pg, PROT_READ | PROT_WRITE, MAP_PRIVATE | MAP_ANONYMOUS, -1, 0);
        if (p == MAP_FAILED) std::abort();
        mprotect(p + 2 * pg, pg, PROT_NONE);
        end = p + 2 * pg;
    }
    return end;
}

static uint64_t splitmix(uint64_t x) { x += 0x9E3779B97F4A7C15ull; x = (x ^ (x >> 30)) * 0xBF58476D1CE4E5B9ull; x = (x ^ (x >> 27)) * 0x94D049BB133111EBull; return x ^ (x >> 31); }
static uint64_t pattern_of(unsigned mode, uint32_t payload, unsigned W) {
    const uint64_t all = W == 64 ? ~0ull : ((1ull << W) - 1);
    switch (mode & 7) {
    case 0: return (((uint64_t)payload << 32) | payload) & all;
    case 1: return (1ull << (payload % W)) & all;
    case 2: return ~(1ull << (payload % W)) & all;
    case 3: { unsigned k = payload % (W + 1); return k == 64 ? ~0ull : ((1ull << k) - 1); }
    case 4: { unsigned k = payload % (W + 1); return (k == 64 ? 0 : ~((1ull << k) - 1)) & all; }
    case 5: return ((payload & 1) ? 0x5555555555555555ull : 0xAAAAAAAAAAAAAAAAull) & all;
    case 6: return (payload & 1) ? all : 0;
    default: return splitmix(payload) & all;
    }
}

struct word { unsigned cmd, d, a, b, lane, bit, mode; uint32_t payload; };
static word decode(uint64_t w, unsigned W) {
    word r; r.cmd = (w & 0xFF) % C_NCMD; r.d = (w >> 8) & 3; r.a = (w >> 10) & 3; r.b = (w >> 12) & 3; r.lane = ((w >> 16) & 0xFF) % W; r.bit = (w >> 24) & 1; r.mode = (w >> 29) & 7; r.payload = (uint32_t)(w >> 32);
    return r;
}
static uint64_t encode(unsigned cmd, unsigned d, unsigned a, unsigned b, unsigned lane, unsigned bit, unsigned mode, uint32_t payload) {
    return (uint64_t)cmd | ((uint64_t)d << 8) | ((uint64_t)a << 10) | ((uint64_t)b << 12) | ((uint64_t)lane << 16) | ((uint64_t)bit << 24) | ((uint64_t)mode << 29) | ((uint64_t)payload << 32);
}

// special lane values for mask(vector): index -> bit pattern; returns whether the lane counts as "non-zero"
template<class T, bool F = std::is_floating_point<T>::value> struct Special;
template<class T> struct Special<T, false> {
    static uint64_t value(unsigned k, bool* truth) {
        const unsigned B = elem<T>::bits; const uint64_t m = elem<T>::mask();
        uint64_t v;
        unsigned nb = B / 8;
        switch (k % 8) {
        case 0: v = 0; break;
        case 1: v = 1; break;
        case 2: v = uint64_t(1) << (B - 1); break;
        case 3: v = m; break;
        case 4: v = uint64_t(0x01) << (8 * ((k / 8) % nb)); break;       // exactly one non-zero byte, every byte position
        case 5: v = uint64_t(0x80) << (8 * ((k / 8) % nb)); break;
        case 6: v = 0; break;
        default: v = splitmix(k) & m; break;
        }
        *truth = (v & m) != 0;
        return v & m;
    }
    static bool special(unsigned k) { return (k % 8) == 2 || (k % 8) == 4 || (k % 8) == 5; }
};
template<class T> struct Special<T, true> {
    static uint64_t value(unsigned k, bool* truth) {
        const unsigned B = elem<T>::bits, mb = B == 32 ? 23 : 52;
        const uint64_t sgn = uint64_t(1) << (B - 1), expm = ((uint64_t(1) << (B - 1 - mb)) - 1) << mb;
        uint64_t v;
        switch (k % 12) {
        case 0: v = 0; *truth = false; break;
        case 1: v = sgn; *truth = false; break;                                  // -0.0 compares equal to zero
        case 2: v = 1; *truth = true; break;                                      // smallest subnormal
        case 3: v = sgn | 1; *truth = true; break;
        case 4: v = expm | (uint64_t(1) << (mb - 1)); *truth = true; break;       // quiet NaN
        case 5: v = sgn | expm | 1; *truth = true; break;                         // negative signalling NaN
        case 6: v = expm; *truth = true; break;                                   // +inf
        case 7: v = elem<T>::to_bits(T(1)); *truth = true; break;
        case 8: v = 0; *truth = false; break;
        case 9: v = uint64_t(1) << mb; *truth = true; break;                      // smallest normal
        case 10: v = (uint64_t(1) << mb) - 1; *truth = true; break;               // largest subnormal
        default: v = elem<T>::to_bits(T(-2.5)); *truth = true; break;
        }
        // with denormals-are-zero set (the driver runs some Cases that way) a subnormal lane compares equal to zero by definition of the mode:
        // no subnormal lanes are used then
        if ((_mm_getcsr() & 0x40u) && (v & expm) == 0 && (v & ~sgn) != 0) { v = elem<T>::to_bits(T(1)); *truth = true; }
        return v;
    }
    static bool special(unsigned k) { unsigned r = k % 12; return r >= 1 && r <= 5; }
};

// set_bits exists for integer vectors only
template<class V, bool I = !std::is_floating_point<typename V::scalar>::value> struct SetBits {
    static bool ne0(const typename V::mask& m, typename V::mask* out, uint64_t* lanes) {
        V s = avel::set_bits(m); rd<V>(s, lanes); uint64_t z[VP_MAXL] = {0}; *out = (s != mk<V>(z)); return true;
    }
    static bool lanes(const typename V::mask& m, uint64_t* l) { V s = avel::set_bits(m); rd<V>(s, l); return true; }
};
template<class V> struct SetBits<V, false> {
    static bool ne0(const typename V::mask&, typename V::mask*, uint64_t*) { return false; }
    static bool lanes(const typename V::mask&, uint64_t*) { return false; }
};

template<class M> struct InsertAt { M in, out; bool b; template<unsigned I> void at() { out = avel::insert<I>(in, b); } };

template<class V> struct Machine {
    typedef typename V::scalar T;
    typedef typename V::mask M;
    static const unsigned W = V::width;
    M r[4]; bool model[4][VP_MAXL];
    VpOutcome* o; unsigned step; const char* last;

    bool observe() {
        for (unsigned k = 0; k < 4; ++k) {
            uint64_t dec[VP_MAXL], ext[VP_MAXL], vl[VP_MAXL], sl[VP_MAXL]; unsigned nonc = 0, pop = 0;
            rdmask<M>(r[k], dec, &nonc);
            if (nonc) o->classes |= 1u << CL_NONCANONICAL;
            extract_all<M>(r[k], ext);
            for (unsigned i = 0; i < W; ++i) pop += model[k][i];
            char tag[96];
            for (unsigned i = 0; i < W; ++i) {
                o->expect[i] = model[k][i]; o->actual[i] = ext[i];
            }
            for (unsigned i = 0; i < W; ++i) {
                ++o->lanes_compared;
                if (ext[i] != (uint64_t)model[k][i]) { std::snprintf(tag, sizeof tag, "after_%s:extract", last); fail(o, (int)i, tag, "step %u (%s): extract<%u>(r%u)=%llu, model %d", step, last, i, k, (unsigned long long)ext[i], (int)model[k][i]); return false; }
                if (dec[i] != (uint64_t)model[k][i]) { std::snprintf(tag, sizeof tag, "after_%s:primitive", last); fail(o, (int)i, tag, "step %u (%s): primitive of r%u decodes lane %u as %llu, model %d", step, last, k, i, (unsigned long long)dec[i], (int)model[k][i]); return false; }
            }
            if (avel::count(r[k]) != pop) { std::snprintf(tag, sizeof tag, "after_%s:count", last); fail(o, -1, tag, "step %u (%s): count(r%u)=%u, model %u", step, last, k, (unsigned)avel::count(r[k]), pop); return false; }
            if (avel::any(r[k]) != (pop != 0)) { std::snprintf(tag, sizeof tag, "after_%s:any", last); fail(o, -1, tag, "step %u (%s): any(r%u) wrong, model population %u", step, last, k, pop); return false; }
            if (avel::all(r[k]) != (pop == W)) { std::snprintf(tag, sizeof tag, "after_%s:all", last); fail(o, -1, tag, "step %u (%s): all(r%u) wrong, model population %u of %u", step, last, k, pop, W); return false; }
            if (avel::none(r[k]) != (pop == 0)) { std::snprintf(tag, sizeof tag, "after_%s:none", last); fail(o, -1, tag, "step %u (%s): none(r%u) wrong, model population %u", step, last, k, pop); return false; }
            V fromm{r[k]}; rd<V>(fromm, vl);
            const uint64_t one = elem<T>::to_bits(T(1));
            for (unsigned i = 0; i < W; ++i) if (vl[i] != (model[k][i] ? one : 0)) { std::snprintf(tag, sizeof tag, "after_%s:vector_of_mask", last); fail(o, (int)i, tag, "step %u (%s): Vector(r%u) lane %u = 0x%llx", step, last, k, i, (unsigned long long)vl[i]); return false; }
            if (SetBits<V>::lanes(r[k], sl))
                for (unsigned i = 0; i < W; ++i) if (sl[i] != (model[k][i] ? elem<T>::mask() : 0)) { std::snprintf(tag, sizeof tag, "after_%s:set_bits", last); fail(o, (int)i, tag, "step %u (%s): set_bits(r%u) lane %u = 0x%llx", step, last, k, i, (unsigned long long)sl[i]); return false; }
            for (unsigned j = 0; j < 4; ++j) {
                bool same = true; for (unsigned i = 0; i < W; ++i) if (model[k][i] != model[j][i]) same = false;
                if ((r[k] == r[j]) != same) { std::snprintf(tag, sizeof tag, "after_%s:mask_eq", last); fail(o, -1, tag, "step %u (%s): (r%u == r%u) is %d, model %d", step, last, k, j, (int)(r[k] == r[j]), (int)same); return false; }
                if ((r[k] != r[j]) != !same) { std::snprintf(tag, sizeof tag, "after_%s:mask_ne", last); fail(o, -1, tag, "step %u (%s): (r%u != r%u) is %d, model %d", step, last, k, j, (int)(r[k] != r[j]), (int)!same); return false; }
            }
        }
        return true;
    }

    void run(const VpCase* c) {
        for (unsigned k = 0; k < 4; ++k) { r[k] = M(false); for (unsigned i = 0; i < VP_MAXL; ++i) model[k][i] = false; }
        step = 0; last = "init";
        if (!observe()) return;
        const uint64_t* w = &c->v[0][0];
        int64_t len = c->s[3]; if (len < 0) len = 0; if (len > VP_NOPER * VP_MAXL) len = VP_NOPER * VP_MAXL;
        if (len >= 10) o->classes |= 1u << CL_LEN_GE_10;
        bool nt = false;
        for (int64_t s = 0; s < len; ++s) {
            word x = decode(w[s], W);
            step = (unsigned)s + 1; last = CMDN[x.cmd];
            bool res[VP_MAXL];
            switch (x.cmd) {
            case C_AND: r[x.d] = r[x.a] & r[x.b]; for (unsigned i = 0; i < W; ++i) res[i] = model[x.a][i] && model[x.b][i]; break;
            case C_OR: r[x.d] = r[x.a] | r[x.b]; for (unsigned i = 0; i < W; ++i) res[i] = model[x.a][i] || model[x.b][i]; break;
            case C_XOR: r[x.d] = r[x.a] ^ r[x.b]; for (unsigned i = 0; i < W; ++i) res[i] = model[x.a][i] != model[x.b][i]; nt = true; o->classes |= 1u << CL_NOT_OR_XOR; break;
            case C_LAND: r[x.d] = r[x.a] && r[x.b]; for (unsigned i = 0; i < W; ++i) res[i] = model[x.a][i] && model[x.b][i]; break;
            case C_LOR: r[x.d] = r[x.a] || r[x.b]; for (unsigned i = 0; i < W; ++i) res[i] = model[x.a][i] || model[x.b][i]; break;
            case C_AND_A: { M t = r[x.d]; t &= r[x.a]; for (unsigned i = 0; i < W; ++i) res[i] = model[x.d][i] && model[x.a][i]; r[x.d] = t; break; }
            case C_OR_A: { M t = r[x.d]; t |= r[x.a]; for (unsigned i = 0; i < W; ++i) res[i] = model[x.d][i] || model[x.a][i]; r[x.d] = t; break; }
            case C_XOR_A: { M t = r[x.d]; t ^= r[x.a]; for (unsigned i = 0; i < W; ++i) res[i] = model[x.d][i] != model[x.a][i]; r[x.d] = t; nt = true; o->classes |= 1u << CL_NOT_OR_XOR; break; }
            case C_NOT: r[x.d] = !r[x.a]; for (unsigned i = 0; i < W; ++i) res[i] = !model[x.a][i]; nt = true; o->classes |= 1u << CL_NOT_OR_XOR; break;
            case C_INSERT: {
                InsertAt<M> f; f.in = r[x.a]; f.out = r[x.a]; f.b = x.bit; dispatch<W>::go(x.lane, f);
                for (unsigned i = 0; i < W; ++i) res[i] = model[x.a][i];
                if (model[x.a][x.lane] && !x.bit) { nt = true; o->classes |= 1u << CL_INSERT_FALSE_INTO_SET; }
                if (!model[x.a][x.lane] && x.bit) { nt = true; o->classes |= 1u << CL_INSERT_TRUE_INTO_CLEAR; }
                res[x.lane] = x.bit; r[x.d] = f.out; break;
            }
            case C_FROM_BOOL: r[x.d] = M(bool(x.bit)); for (unsigned i = 0; i < W; ++i) res[i] = x.bit; break;
            case C_FROM_ARRAY: {
                uint64_t p = pattern_of(x.mode, x.payload, W);
                static const unsigned back[4] = {0, 1, 3, 16};
                typedef std::array<bool, W> BA;
                BA* ap = reinterpret_cast<BA*>(bool_arena_end() - sizeof(BA) - back[(x.payload >> 20) & 3] - ((x.lane & 1) ? 0 : 0));
                for (unsigned i = 0; i < W; ++i) { (*ap)[i] = (p >> i) & 1; res[i] = (*ap)[i]; }
                r[x.d] = M(*ap); o->classes |= 1u << CL_ARRAY_CTOR; break;
            }
            case C_ASSIGN_BOOL: { M t = r[x.d]; t = bool(x.bit); r[x.d] = t; for (unsigned i = 0; i < W; ++i) res[i] = x.bit; break; }
            case C_VEC_ROUNDTRIP: { V v{r[x.a]}; r[x.d] = M(v); for (unsigned i = 0; i < W; ++i) res[i] = model[x.a][i]; break; }
            case C_SETBITS_NE0: {
                M out = r[x.a]; uint64_t l[VP_MAXL];
                if (!SetBits<V>::ne0(r[x.a], &out, l)) { V v{r[x.a]}; out = M(v); }
                r[x.d] = out; for (unsigned i = 0; i < W; ++i) res[i] = model[x.a][i]; break;
            }
            default: {  // C_FROM_VECTOR
                uint64_t lanes[VP_MAXL]; uint64_t h = splitmix(((uint64_t)x.payload << 8) | x.mode);
                bool sp = false;
                for (unsigned i = 0; i < W; ++i) {
                    unsigned k = (unsigned)((x.mode & 1) ? (x.payload + i) : ((h >> ((i % 8) * 8)) & 0xFF) + (i / 8) * 3);
                    if (x.mode == 2) k = (i == x.lane) ? x.payload : 0;              // one special lane, the rest zero
                    if (x.mode == 4) k = (i == x.lane) ? 0 : x.payload;              // one zero lane among special values
                    bool t; lanes[i] = Special<T>::value(k, &t); res[i] = t; if (Special<T>::special(k)) sp = true;
                }
                if (sp) { nt = true; o->classes |= 1u << CL_FROM_VECTOR_SPECIAL; }
                V v = mk<V>(lanes); r[x.d] = M(v); break;
            }
            }
            for (unsigned i = 0; i < W; ++i) model[x.d][i] = res[i];
            if (!observe()) { o->nontrivial = nt; return; }
        }
        if (nt) o->nontrivial = 1; else o->classes |= 1u << CL_ORDINARY;
    }
};

template<class V> static void run(const VpCase* c, VpOutcome* o) { Machine<V> mch; mch.o = o; mch.run(c); }

extern "C" void vp_run(const VpCase* c, VpOutcome* o) {
    switch (c->target) {
#define X(n) case T_##n: run<avel::n>(c, o); return;
        VP_ALL_VECS(X)
#undef X
    default: o->status = 2; return;
    }
}

extern "C" void vp_enum(int tier, uint64_t seed, uint32_t shard, uint32_t nshards, void (*emit)(const VpCase*, void*), void* ctx) {
    uint32_t nt; const VpTarget* T = vp_targets(&nt);
    uint64_t job = 0;
    for (uint32_t t = 0; t < nt; ++t) {
        if (!T[t].present) continue;
        if ((job++ % nshards) != shard) continue;
        const unsigned W = T[t].width;
        // patterns: every one for W <= 16 (W <= 8 in the quick tier every lane is also inserted; wider: a rotating lane subset)
        std::vector<std::pair<unsigned, uint32_t> > pats;   // (mode, payload)
        if (W <= 16) { for (uint32_t p = 0; p < (1u << W); ++p) pats.push_back(std::make_pair(0u, p)); }
        else {
            for (unsigned md = 1; md <= 6; ++md) for (uint32_t p = 0; p <= W; ++p) pats.push_back(std::make_pair(md, p));
            for (uint32_t p = 0; p < 64; ++p) pats.push_back(std::make_pair(7u, p * 2654435761u + (uint32_t)seed));
        }
        uint64_t pi = 0;
        for (auto& pm : pats) {
            VpCase c; std::memset(&c, 0, sizeof c); c.target = t; c.op = OP_HISTORY;
            uint64_t* w = &c.v[0][0]; unsigned n = 0;
            w[n++] = encode(C_FROM_ARRAY, 0, 0, 0, 0, 0, pm.first, pm.first == 0 ? (pm.second | ((uint32_t)(pi & 3) << 20)) : pm.second);
            w[n++] = encode(C_NOT, 1, 0, 0, 0, 0, 0, 0);
            w[n++] = encode(C_XOR, 2, 0, 1, 0, 0, 0, 0);
            w[n++] = encode(C_VEC_ROUNDTRIP, 3, 0, 0, 0, 0, 0, 0);
            w[n++] = encode(C_SETBITS_NE0, 3, 1, 0, 0, 0, 0, 0);
            // inserts: all lanes x both values when the history fits, otherwise a rotating window of lanes
            unsigned lanes_per = W <= 16 ? W : 24;
            if (W == 16 && tier == 0) lanes_per = 4;
            for (unsigned q = 0; q < lanes_per && n + 2 < VP_NOPER * VP_MAXL; ++q) {
                unsigned lane = (unsigned)((q + pi * lanes_per) % W);
                w[n++] = encode(C_INSERT, 2, 0, 0, lane, 0, 0, 0);
                w[n++] = encode(C_INSERT, 3, 0, 0, lane, 1, 0, 0);
            }
            w[n++] = encode(C_AND, 1, 2, 3, 0, 0, 0, 0);
            w[n++] = encode(C_OR_A, 1, 0, 0, 0, 0, 0, 0);
            c.s[3] = n; emit(&c, ctx); ++pi;
        }
        // mask(vector): every special value in every lane, alone and as the only zero
        for (unsigned k = 0; k < 96; ++k)
            for (unsigned lane = 0; lane < W; ++lane)
                for (unsigned md : {2u, 4u}) {
                    VpCase c; std::memset(&c, 0, sizeof c); c.target = t; c.op = OP_HISTORY;
                    uint64_t* w = &c.v[0][0];
                    w[0] = encode(C_FROM_VECTOR, 0, 0, 0, lane, 0, md, k);
                    w[1] = encode(C_NOT, 1, 0, 0, 0, 0, 0, 0);
                    c.s[3] = 2; emit(&c, ctx);
                }
        // bool constructors / assignment
        for (unsigned b = 0; b < 2; ++b) {
            VpCase c; std::memset(&c, 0, sizeof c); c.target = t; c.op = OP_HISTORY;
            uint64_t* w = &c.v[0][0];
            w[0] = encode(C_FROM_BOOL, 0, 0, 0, 0, b, 0, 0); w[1] = encode(C_ASSIGN_BOOL, 1, 0, 0, 0, !b, 0, 0); w[2] = encode(C_LAND, 2, 0, 1, 0, 0, 0, 0); w[3] = encode(C_LOR, 3, 0, 1, 0, 0, 0, 0);
            w[4] = encode(C_AND_A, 0, 1, 0, 0, 0, 0, 0); w[5] = encode(C_XOR_A, 1, 3, 0, 0, 0, 0, 0);
            c.s[3] = 6; emit(&c, ctx);
        }
    }
}

extern "C" void vp_sweep(int tier, uint64_t, uint32_t, uint32_t, void (*)(const VpCase*, void*), void*, uint64_t*, uint64_t*, char* d, size_t cap) {
    std::snprintf(d, cap, "every one of the 2^N lane patterns for N<=16 through the array constructor, !, ^, Vector(mask) round trip, set_bits and insert<I>(m,false/true)%s; every special lane value of mask(vector) in every lane position",
                  tier ? " for every lane I" : " (every lane I for N<=8, a rotating lane window for N=16)");
}
