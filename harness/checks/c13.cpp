// C13: float classification and quiet comparisons are exact for every bit pattern.
#define VP_CHECK_OBJECT
#include "../fpcommon.hpp"
#include "../lattice.hpp"

using namespace vp;

enum { F_FPCLASSIFY, F_ISNAN, F_ISINF, F_ISFINITE, F_ISNORMAL, F_SIGNBIT, F_ISGREATER, F_ISGREATEREQUAL, F_ISLESS, F_ISLESSEQUAL, F_ISLESSGREATER, F_ISUNORDERED, F_COUNT };
enum { OP_SC0 = F_COUNT, OP_COUNT = 2 * F_COUNT };
static const VpOp OPS[] = {
    {"fpclassify", {VK_FLT}, {}, 2}, {"isnan", {VK_FLT}, {}, 1}, {"isinf", {VK_FLT}, {}, 1}, {"isfinite", {VK_FLT}, {}, 1}, {"isnormal", {VK_FLT}, {}, 1}, {"signbit", {VK_FLT}, {}, 1},
    {"isgreater", {VK_FLT, VK_FLT_REL}, {}, 1}, {"isgreaterequal", {VK_FLT, VK_FLT_REL}, {}, 1}, {"isless", {VK_FLT, VK_FLT_REL}, {}, 1}, {"islessequal", {VK_FLT, VK_FLT_REL}, {}, 1},
    {"islessgreater", {VK_FLT, VK_FLT_REL}, {}, 1}, {"isunordered", {VK_FLT, VK_FLT_REL}, {}, 1},
    {"scalar_fpclassify", {VK_FLT}, {}, 1}, {"scalar_isnan", {VK_FLT}, {}, 1}, {"scalar_isinf", {VK_FLT}, {}, 1}, {"scalar_isfinite", {VK_FLT}, {}, 1}, {"scalar_isnormal", {VK_FLT}, {}, 1}, {"scalar_signbit", {VK_FLT}, {}, 1},
    {"scalar_isgreater", {VK_FLT, VK_FLT_REL}, {}, 1}, {"scalar_isgreaterequal", {VK_FLT, VK_FLT_REL}, {}, 1}, {"scalar_isless", {VK_FLT, VK_FLT_REL}, {}, 1}, {"scalar_islessequal", {VK_FLT, VK_FLT_REL}, {}, 1},
    {"scalar_islessgreater", {VK_FLT, VK_FLT_REL}, {}, 1}, {"scalar_isunordered", {VK_FLT, VK_FLT_REL}, {}, 1},
};
enum { CL_ZERO, CL_SUBNORMAL, CL_INF, CL_QNAN, CL_SNAN, CL_NEG_SPECIAL, CL_EQUAL_PAIR, CL_ORDINARY };
static const char* const CLASSES[] = {"zero", "subnormal", "infinity", "quiet_nan", "signalling_nan", "negative_zero_inf_or_nan", "equal_or_signed_zero_pair", "ordinary"};
extern "C" const char* vp_property(void) { return "C13"; }
extern "C" const VpOp* vp_ops(uint32_t* n) { *n = OP_COUNT; return OPS; }
extern "C" const char* const* vp_class_names(uint32_t* n) { *n = 8; return CLASSES; }
extern "C" const char* vp_rule(void) {
    return "a case is a vector (pair) of float/double bit patterns and a classification function or quiet comparison (vector form or scalar overload); non-trivial = a lane of a "
           "non-normal class (zero, subnormal, infinity, quiet or signalling NaN, of either sign) or an equal / +-0 pair for the binary predicates; distinct = distinct hash of the Case";
}
#define FLTCLS(c) ((c) == 2)
VP_DEFINE_VECTOR_TARGETS(FLTCLS)

template<class V> static void run(const VpCase* c, VpOutcome* o) {
    typedef typename V::scalar T;
    typedef typename V::mask M;
    typedef FB<T> F;
    typedef avel::Vector<typename avel::to_index_type<T>::type, V::width> IV;
    typedef typename IV::scalar IT;
    const unsigned W = V::width;
    const bool scalar = c->op >= OP_SC0;
    const unsigned f = scalar ? c->op - OP_SC0 : c->op;
    if (scalar && W != 1) { o->status = 2; return; }
    uint64_t al[VP_MAXL], bl[VP_MAXL], got[VP_MAXL], exp[VP_MAXL];
    for (unsigned i = 0; i < W; ++i) { al[i] = c->v[0][i] & F::mask(); bl[i] = c->v[1][i] & F::mask(); }
    poison_below(al[0] ^ f);
    M produced{}; bool have_mask = false;
    if (!scalar) {
        V a = mk<V>(al), b = mk<V>(bl); M m{}; IV ir{};
        switch (f) {
        case F_FPCLASSIFY: ir = avel::fpclassify(a); break;
        case F_ISNAN: m = avel::isnan(a); break; case F_ISINF: m = avel::isinf(a); break; case F_ISFINITE: m = avel::isfinite(a); break;
        case F_ISNORMAL: m = avel::isnormal(a); break; case F_SIGNBIT: m = avel::signbit(a); break;
        case F_ISGREATER: m = avel::isgreater(a, b); break; case F_ISGREATEREQUAL: m = avel::isgreaterequal(a, b); break; case F_ISLESS: m = avel::isless(a, b); break;
        case F_ISLESSEQUAL: m = avel::islessequal(a, b); break; case F_ISLESSGREATER: m = avel::islessgreater(a, b); break; default: m = avel::isunordered(a, b); break;
        }
        if (f == F_FPCLASSIFY) rd<IV>(ir, got); else { rdmask<M>(m, got); produced = m; have_mask = true; }
    } else {
        T x = elem<T>::from_bits(al[0]), y = elem<T>::from_bits(bl[0]); bool r = false; IT ci = 0;
        switch (f) {
        case F_FPCLASSIFY: ci = avel::fpclassify(x); break;
        case F_ISNAN: r = avel::isnan(x); break; case F_ISINF: r = avel::isinf(x); break; case F_ISFINITE: r = avel::isfinite(x); break;
        case F_ISNORMAL: r = avel::isnormal(x); break; case F_SIGNBIT: r = avel::signbit(x); break;
        case F_ISGREATER: r = avel::isgreater(x, y); break; case F_ISGREATEREQUAL: r = avel::isgreaterequal(x, y); break; case F_ISLESS: r = avel::isless(x, y); break;
        case F_ISLESSEQUAL: r = avel::islessequal(x, y); break; case F_ISLESSGREATER: r = avel::islessgreater(x, y); break; default: r = avel::isunordered(x, y); break;
        }
        got[0] = f == F_FPCLASSIFY ? elem<IT>::to_bits(ci) : (uint64_t)r;
    }
    bool nt = false;
    auto cls = [&](unsigned k) { o->classes |= 1u << k; nt = true; };
    auto one = [&](uint64_t x) {
        if (F::iszero(x)) cls(CL_ZERO); if (F::issub(x)) cls(CL_SUBNORMAL); if (F::isinf(x)) cls(CL_INF);
        if (F::isnan(x)) { if (x & (1ull << (F::MB - 1))) cls(CL_QNAN); else cls(CL_SNAN); }
        if ((x & F::sgn()) && (F::iszero(x) || F::isinf(x) || F::isnan(x))) cls(CL_NEG_SPECIAL);
    };
    const char* first_class = "normal";
    bool have_first = false;
    for (unsigned i = 0; i < W; ++i) {
        const uint64_t x = al[i], y = bl[i];
        one(x); if (f >= F_ISGREATER) { one(y); if (F::key(x) == F::key(y) && !F::isnan(x) && !F::isnan(y)) cls(CL_EQUAL_PAIR); }
        const bool un = F::isnan(x) || F::isnan(y);
        switch (f) {
        case F_FPCLASSIFY: {
            // from the bit fields, cross-checked against the C library
            int k = F::isnan(x) ? ref_fp_const(0) : F::isinf(x) ? ref_fp_const(1) : F::iszero(x) ? ref_fp_const(2) : F::issub(x) ? ref_fp_const(3) : ref_fp_const(4);
            if (k != Ref<T>::fpclassify(x)) { o->status = 1; std::snprintf(o->tag, sizeof o->tag, "harness-inconsistent"); std::snprintf(o->msg, sizeof o->msg, "bit-field classification and std::fpclassify disagree for 0x%llx", (unsigned long long)x); return; }
            exp[i] = (uint64_t)(int64_t)k & elem<IT>::mask(); break;
        }
        case F_ISNAN: exp[i] = F::isnan(x); break; case F_ISINF: exp[i] = F::isinf(x); break; case F_ISFINITE: exp[i] = F::isfinite(x); break;
        case F_ISNORMAL: exp[i] = F::isnormal(x); break; case F_SIGNBIT: exp[i] = (x >> (F::B - 1)) & 1; break;
        case F_ISGREATER: exp[i] = !un && F::key(x) > F::key(y); break; case F_ISGREATEREQUAL: exp[i] = !un && F::key(x) >= F::key(y); break;
        case F_ISLESS: exp[i] = !un && F::key(x) < F::key(y); break; case F_ISLESSEQUAL: exp[i] = !un && F::key(x) <= F::key(y); break;
        case F_ISLESSGREATER: exp[i] = !un && F::key(x) != F::key(y); break; default: exp[i] = un; break;
        }
        if (!have_first && exp[i] != got[i]) {
            have_first = true;
            uint64_t w = (f >= F_ISGREATER && !F::isnan(x) && F::isnan(y)) ? y : x;
            first_class = F::isnan(w) ? ((w & F::sgn()) ? "neg_nan" : "nan") : F::isinf(w) ? "inf" : F::iszero(w) ? ((w & F::sgn()) ? "neg_zero" : "zero") : F::issub(w) ? "subnormal" : "normal";
        }
    }
    if (nt) o->nontrivial = 1; else o->classes |= 1u << CL_ORDINARY;
    char tag[96]; std::snprintf(tag, sizeof tag, "value:%s_input", first_class);
    if (!cmp_lanes(o, W, exp, got, nullptr, tag, OPS[c->op].name)) return;
    // the mask the function returned, handed to keep / clear / blend: whole lanes must move
    if (have_mask) mask_consumers_ok<V>(produced, exp, o, OPS[c->op].name);
}

extern "C" void vp_run(const VpCase* c, VpOutcome* o) {
    switch (c->target) {
#define X(n) case T_##n: run<avel::n>(c, o); return;
        VP_FLT_VECS(X)
#undef X
    default: o->status = 2; return;
    }
}

extern "C" void vp_enum(int tier, uint64_t seed, uint32_t shard, uint32_t nshards, void (*emit)(const VpCase*, void*), void* ctx) {
    uint32_t nt; const VpTarget* T = vp_targets(&nt);
    uint64_t job = 0;
    for (uint32_t t = 0; t < nt; ++t) {
        if (!T[t].present) continue;
        const unsigned W = T[t].width, B = T[t].bits;
        std::vector<uint64_t> L = vpl::flt_lattice(B), S = vpl::flt_lattice_small(B);
        if (B == 64) {   // every exponent, both NaN kinds, both signs, mantissa boundaries
            for (uint64_t e = 0; e < 2048; ++e) for (uint64_t mt : {0ull, 1ull, 1ull << 51, (1ull << 51) - 1, (1ull << 52) - 1, (1ull << 51) + 1}) for (uint64_t s : {0ull, 1ull}) L.push_back((s << 63) | (e << 52) | mt);
        }
        for (unsigned op = 0; op < OP_COUNT; ++op) {
            if ((job++ % nshards) != shard) continue;
            if (op >= OP_SC0 && W != 1) continue;
            const unsigned f = op % F_COUNT;
            const bool binary = f >= F_ISGREATER;
            const std::vector<uint64_t>& A = binary ? S : L;
            VpCase c; std::memset(&c, 0, sizeof c); c.target = t; c.op = op;
            size_t fill = 0; uint64_t rot = seed + op;
            for (size_t i = 0; i < A.size(); ++i)
                for (size_t j = 0; j < (binary ? A.size() : 1); ++j) {
                    unsigned lane = (unsigned)((fill + rot) % W);
                    c.v[0][lane] = A[i]; c.v[1][lane] = binary ? A[j] : 0;
                    if (++fill == W) { emit(&c, ctx); fill = 0; ++rot; }
                }
            if (fill) emit(&c, ctx);
        }
    }
}

template<class V> static void sweep32(unsigned t, uint64_t seed, int tier, uint32_t shard, uint32_t nshards, void (*emit)(const VpCase*, void*), void* ctx, uint64_t* evals, uint64_t* lanes) {
    const unsigned W = V::width;
    const uint64_t stride = tier ? 1 : 1019;
    for (unsigned f = 0; f <= F_SIGNBIT; ++f) {
        VpCase c; std::memset(&c, 0, sizeof c); c.target = t; c.op = f;
        bool failed = false;
        for (uint64_t base = ((seed * 11 + f) % stride) + (uint64_t)shard * W * stride; base < (1ull << 32) && !failed; base += (uint64_t)nshards * W * stride) {
            for (unsigned i = 0; i < W; ++i) c.v[0][i] = (base + i * stride) & 0xFFFFFFFFull;
            VpOutcome o; std::memset(&o, 0, sizeof o); o.bad_lane = -1;
            run<V>(&c, &o);
            ++*evals; *lanes += o.lanes_compared;
            if (o.status == 1) { emit(&c, ctx); failed = true; }
        }
    }
}
extern "C" void vp_sweep(int tier, uint64_t seed, uint32_t shard, uint32_t nshards, void (*emit)(const VpCase*, void*), void* ctx, uint64_t* evals, uint64_t* lanes, char* d, size_t cap) {
#define X(n) if (sizeof(avel::n::scalar) == 4) sweep32<avel::n>(T_##n, seed, tier, shard, nshards, emit, ctx, evals, lanes);
    VP_FLT_VECS(X)
#undef X
    if (tier) std::snprintf(d, cap, "all 2^32 binary32 bit patterns for fpclassify, isnan, isinf, isfinite, isnormal and signbit in every float vector width"); else d[0] = 0;
}
