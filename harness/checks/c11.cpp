// C11: ceil/floor/trunc/round/nearbyint/rint match <cmath> (nearbyint/rint in every rounding mode), and no AVEL
// operation leaves the floating-point environment (rounding mode, FTZ/DAZ, exception masks) changed.
#define VP_CHECK_OBJECT
#include "../fpcommon.hpp"
#include "../lattice.hpp"

using namespace vp;

enum { F_CEIL, F_FLOOR, F_TRUNC, F_ROUND, F_NEARBYINT, F_RINT, F_COUNT };
enum { OP_SC0 = F_COUNT, OP_ENV = 2 * F_COUNT, OP_COUNT };
enum { ENV_OPS = 68 };   // operations sampled for the environment invariant (every function and operator the float vectors offer)
static const VpOp OPS[] = {
    {"ceil", {VK_FLT}, {SK_SMALL, SK_SMALL}, 2}, {"floor", {VK_FLT}, {SK_SMALL, SK_SMALL}, 2}, {"trunc", {VK_FLT}, {SK_SMALL, SK_SMALL}, 2}, {"round", {VK_FLT}, {SK_SMALL, SK_SMALL}, 2}, {"nearbyint", {VK_FLT}, {SK_SMALL, SK_SMALL}, 3}, {"rint", {VK_FLT}, {SK_SMALL, SK_SMALL}, 3},
    {"scalar_ceil", {VK_FLT}, {SK_SMALL, SK_SMALL}, 1}, {"scalar_floor", {VK_FLT}, {SK_SMALL, SK_SMALL}, 1}, {"scalar_trunc", {VK_FLT}, {SK_SMALL, SK_SMALL}, 1}, {"scalar_round", {VK_FLT}, {SK_SMALL, SK_SMALL}, 1},
    {"scalar_nearbyint", {VK_FLT}, {SK_SMALL, SK_SMALL}, 1}, {"scalar_rint", {VK_FLT}, {SK_SMALL, SK_SMALL}, 1},
    {"fp_environment", {VK_FLT, VK_FLT_REL}, {SK_SMALL, SK_SMALL, SK_OFF}, 3},
};
enum { CL_NEAR_2P, CL_LT_ONE, CL_TIE, CL_NEAR_TIE, CL_NEG_TO_ZERO, CL_NAN_INF, CL_INTEGRAL, CL_DIRECTED_MODE, CL_FTZ_DAZ, CL_ZERO_SIGN_DIFFERS, CL_ORDINARY };
static const char* const CLASSES[] = {"magnitude_near_2^mantissa_bits", "magnitude_below_one", "exact_tie", "within_one_ulp_of_tie", "negative_rounding_to_zero", "nan_or_infinity",
                                      "already_integral", "directed_rounding_mode", "ftz_daz_enabled", "zero_sign_differs_from_libm", "ordinary"};
extern "C" const char* vp_property(void) { return "C11"; }
extern "C" const VpOp* vp_ops(uint32_t* n) { *n = OP_COUNT; return OPS; }
extern "C" const char* const* vp_class_names(uint32_t* n) { *n = 11; return CLASSES; }
extern "C" const char* vp_rule(void) {
    return "a case is a vector of float/double bit patterns, a rounding function (vector form or scalar overload) and a rounding mode, or an arbitrary AVEL operation whose effect on "
           "MXCSR/x87 control state is observed (for the integer vector types: a sample of forty integer operations); non-trivial = |x| in [2^(p-2), 2^(p+1)), |x| < 1, a tie or a neighbour of a tie, a negative value rounding to zero, NaN/inf, a directed "
           "rounding mode or FTZ/DAZ enabled; distinct = distinct hash of the Case";
}
#define ALLCLS(c) true
VP_DEFINE_VECTOR_TARGETS(ALLCLS)      // the integer vector types take part in the environment invariant only ("no AVEL operation ...")

// integer vector operations sampled for the environment invariant
enum { ENV_INT_OPS = 40 };
template<class V> struct CtOps { V x, r; template<unsigned I> void at() { r = avel::rotl<I>(avel::bit_shift_right<I>(avel::bit_shift_left<I>(x))); } };
template<class V> __attribute__((noinline)) static uint64_t env_sample_int(unsigned k, const V* a, const V* b) {
    typedef typename V::scalar T; typedef typename V::mask M;
    uint64_t sink[VP_MAXL], bl[VP_MAXL], nz[VP_MAXL], am[VP_MAXL]; uint64_t acc = 0;
    rd<V>(*b, bl);
    for (unsigned i = 0; i < V::width; ++i) { nz[i] = bl[i] ? bl[i] : 3; if (std::is_signed<T>::value && nz[i] == elem<T>::mask()) nz[i] = 5; am[i] = bl[i] % (elem<T>::bits + 1); }
    const V d = mk<V>(nz), sh = mk<V>(am);
    V r = *a; M m{};
    switch (k % ENV_INT_OPS) {
    case 0: r = *a + *b; break; case 1: r = *a - *b; break; case 2: r = *a * *b; break; case 3: r = *a / d; break; case 4: r = *a % d; break;
    case 5: { auto q = avel::div(*a, d); r = q.quot ^ q.rem; break; } case 6: { V t = *a; t /= d; t %= d; r = t; break; }
    case 7: r = *a << sh; break; case 8: r = *a >> sh; break; case 9: r = *a << 3LL; break; case 10: r = *a >> 3LL; break;
    case 11: r = avel::rotl(*a, sh); break; case 12: r = avel::rotr(*a, 5LL); break; case 13: { CtOps<V> f; f.x = *a; dispatch<8>::go(k % 8, f); r = f.r; break; }
    case 14: r = avel::popcount(*a); break; case 15: r = avel::countl_zero(*a); break; case 16: r = avel::countr_zero(*a); break; case 17: r = avel::countl_one(*a); break; case 18: r = avel::countr_one(*a); break;
    case 19: m = avel::has_single_bit(*a); break; case 20: r = avel::byteswap(*a); break; case 21: r = avel::average(*a, *b); break; case 22: r = avel::midpoint(*a, *b); break;
    case 23: r = avel::min(*a, *b); break; case 24: r = avel::max(*a, *b); break; case 25: r = avel::clamp(*a, avel::min(*a, *b), avel::max(*a, *b)); break;
    case 26: m = (*a < *b); break; case 27: m = (*a >= *b); break; case 28: m = (*a == *b); break; case 29: r = avel::blend(*a < *b, *a, *b); break;
    case 30: r = ~*a & *b | (*a ^ *b); break; case 31: { V t = *a; ++t; t--; t += *b; t *= *a; r = t; break; }
    case 32: { T buf[VP_MAXL + 1]; avel::store(buf, *a, V::width / 2 + 1); r = avel::load<V>(buf, V::width / 2 + 1); break; } case 33: { auto arr = avel::to_array(*a); r = V{arr}; break; }
    case 34: r = avel::insert<0>(*a, avel::extract<0>(*b)); break; case 35: { M q(*a); r = V(q); m = q; break; }
    case 36: { avel::Denominator<V> den(d); r = *a / den; break; } case 37: { avel::Denominator<V> den(d); r = *a % den; break; }
    case 38: { avel::Denominator<T> sd(avel::extract<0>(d)); r = V(T(avel::extract<0>(*a) / sd)); break; }
    default: r = avel::keep(*a != *b, *a); break;
    }
    rd<V>(r, sink); acc ^= sink[0]; acc ^= avel::count(m);
    return acc;
}
template<class V> struct IntEnv {
    static void run(const VpCase* c, VpOutcome* o) {
        if (c->op != OP_ENV) { o->status = 2; return; }
        typedef typename V::scalar T;
        const unsigned W = V::width;
        uint64_t al[VP_MAXL], bl[VP_MAXL];
        for (unsigned i = 0; i < W; ++i) { al[i] = c->v[0][i] & elem<T>::mask(); bl[i] = c->v[1][i] & elem<T>::mask(); }
        const int mode = (int)((c->s[0] < 0 ? -c->s[0] : c->s[0]) % 4);
        const unsigned ftzdaz = (unsigned)(c->s[1] < 0 ? -c->s[1] : c->s[1]) % 4, k = (unsigned)(c->s[2] < 0 ? -c->s[2] : c->s[2]);
        V a = mk<V>(al), b = mk<V>(bl);
        ref_setround(mode);
        const uint32_t saved = ref_get_mxcsr();
        ref_set_mxcsr((saved & ~0x8040u) | ((ftzdaz & 1) ? 0x8000u : 0) | ((ftzdaz & 2) ? 0x0040u : 0));
        FpEnv before = FpEnv::take();
        volatile uint64_t sink = env_sample_int<V>(k, &a, &b); (void)sink;
        FpEnv after = FpEnv::take();
        ref_set_mxcsr(0x1F80); ref_setround(0);
        if (mode) o->classes |= 1u << CL_DIRECTED_MODE;
        if (ftzdaz) o->classes |= 1u << CL_FTZ_DAZ;
        o->nontrivial = (mode || ftzdaz); if (!o->nontrivial) o->classes |= 1u << CL_ORDINARY;
        ++o->lanes_compared;
        if (!before.same(after)) {
            char tag[96]; std::snprintf(tag, sizeof tag, "fp_environment_changed:integer_op%u", k % ENV_INT_OPS);
            fail(o, -1, tag, "integer operation #%u changed the FP environment: MXCSR control %04x -> %04x, x87 cw %04x -> %04x (mode %d, ftz/daz %u)", k % ENV_INT_OPS, before.mxcsr_ctl, after.mxcsr_ctl, before.x87, after.x87, mode, ftzdaz);
        }
    }
};

template<class V> __attribute__((noinline)) static void do_vec(unsigned f, const V* a, V* r) {
    switch (f) {
    case F_CEIL: *r = avel::ceil(*a); break; case F_FLOOR: *r = avel::floor(*a); break; case F_TRUNC: *r = avel::trunc(*a); break;
    case F_ROUND: *r = avel::round(*a); break; case F_NEARBYINT: *r = avel::nearbyint(*a); break; default: *r = avel::rint(*a); break;
    }
}
template<class T> __attribute__((noinline)) static void do_sc(unsigned f, const T* a, T* r) {
    switch (f) {
    case F_CEIL: *r = avel::ceil(*a); break; case F_FLOOR: *r = avel::floor(*a); break; case F_TRUNC: *r = avel::trunc(*a); break;
    case F_ROUND: *r = avel::round(*a); break; case F_NEARBYINT: *r = avel::nearbyint(*a); break; default: *r = avel::rint(*a); break;
    }
}
static const int RF[6] = {R_CEIL, R_FLOOR, R_TRUNC, R_ROUND, R_NEARBYINT, R_RINT};

// a broad sample of other AVEL operations for the environment invariant
template<class V> __attribute__((noinline)) static uint64_t env_sample(unsigned k, const V* a, const V* b) {
    typedef typename V::scalar T;
    typedef avel::Vector<typename avel::to_index_type<T>::type, V::width> IV;
    typedef avel::Vector<typename std::make_unsigned<typename IV::scalar>::type, V::width> UV;
    uint64_t sink[VP_MAXL]; uint64_t acc = 0;
    V r = *a; IV ir{}; typename V::mask m{};
    uint64_t ia[VP_MAXL], ib[VP_MAXL]; rd<V>(*a, ia); rd<V>(*b, ib);
    IV x = mk<IV>(ia), y = mk<IV>(ib);
    switch (k % ENV_OPS) {
    case 0: r = *a + *b; break; case 1: r = *a - *b; break; case 2: r = *a * *b; break; case 3: r = *a / *b; break;
    case 4: r = avel::sqrt(*a); break; case 5: r = avel::fmax(*a, *b); break; case 6: r = avel::fmin(*a, *b); break; case 7: r = avel::fdim(*a, *b); break;
    case 8: r = avel::frexp(*a, &ir); break; case 9: r = avel::ldexp(*a, y); break; case 10: r = avel::scalbn(*a, y); break; case 11: ir = avel::ilogb(*a); break;
    case 12: r = avel::logb(*a); break; case 13: r = avel::frac(*a); break; case 14: r = avel::copysign(*a, *b); break; case 15: ir = avel::fpclassify(*a); break;
    case 16: m = avel::isnan(*a); break; case 17: m = avel::isinf(*a); break; case 18: m = avel::isfinite(*a); break; case 19: m = avel::isnormal(*a); break;
    case 20: m = avel::signbit(*a); break; case 21: m = avel::isgreater(*a, *b); break; case 22: m = avel::islessgreater(*a, *b); break; case 23: m = avel::isunordered(*a, *b); break;
    case 24: m = (*a == *b); break; case 25: m = (*a < *b); break; case 26: m = (*a >= *b); break; case 27: r = avel::abs(*a); break;
    case 28: r = avel::min(*a, *b); break; case 29: r = avel::max(*a, *b); break; case 30: r = avel::clamp(*a, avel::min(*a, *b), avel::max(*a, *b)); break;
    case 31: ir = x * y; break; case 32: { uint64_t z[VP_MAXL]; for (unsigned i = 0; i < V::width; ++i) z[i] = ib[i] | 1; ir = avel::div(x, mk<IV>(z)).quot; break; }
    case 33: { uint64_t z[VP_MAXL]; for (unsigned i = 0; i < V::width; ++i) z[i] = ib[i] | 1; UV q = avel::div(mk<UV>(ia), mk<UV>(z)).rem; rd<UV>(q, sink); acc ^= sink[0]; break; }
    case 34: ir = avel::countl_zero(x); break; case 35: ir = avel::popcount(x); break; case 36: ir = avel::average(x, y); break; case 37: ir = avel::midpoint(x, y); break;
    case 38: r = avel::negate(*a < *b, *a); break; case 39: r = -*a; break;
    case 40: m = avel::isgreaterequal(*a, *b); break; case 41: m = avel::isless(*a, *b); break; case 42: m = avel::islessequal(*a, *b); break;
    case 43: m = (*a != *b); break; case 44: m = (*a <= *b); break; case 45: m = (*a > *b); break;
    case 46: r = avel::ceil(*a); break; case 47: r = avel::floor(*a); break; case 48: r = avel::trunc(*a); break; case 49: r = avel::round(*a); break;
    case 50: r = avel::nearbyint(*a); break; case 51: r = avel::rint(*a); break; case 52: r = avel::neg_abs(*a); break;
    case 53: r = avel::blend(*a < *b, *a, *b); break; case 54: r = avel::keep(*a >= *b, *a); break; case 55: r = avel::clear(*a == *b, *b); break;
    case 56: { auto mm = avel::minmax(*a, *b); r = mm[0]; break; } case 57: r = avel::byteswap(*a); break;
    case 58: { V t = *a; t += *b; t -= *a; t *= *b; t /= *a; r = t; break; } case 59: { V t = *a; ++t; --t; r = t++; break; }
    case 60: { typename V::mask q(*a); m = q; break; } case 61: { V t(*a < *b); r = t; break; }
    case 62: { T buf[VP_MAXL + 1]; avel::store(buf, *a); r = avel::load<V>(buf); break; } case 63: { auto arr = avel::to_array(*a); r = V{arr}; break; }
    case 64: { T buf[VP_MAXL + 1]; for (unsigned i = 0; i <= V::width; ++i) buf[i] = T(i); avel::store(buf, *a, V::width / 2 + 1); r = avel::load<V>(buf, V::width / 2 + 1); break; }
    case 65: r = avel::insert<0>(*a, avel::extract<0>(*b)); break; case 66: m = !(*a < *b) & (*a == *a) | (*b != *b); break;
    default: { IV cnt = avel::fpclassify(*b); ir = cnt; r = avel::fdim(*b, *a); break; }
    }
    rd<V>(r, sink); acc ^= sink[0]; rd<IV>(ir, sink); acc ^= sink[0]; acc ^= avel::count(m);
    return acc;
}

template<class T> static void classify(uint64_t x, uint64_t libm, VpOutcome* o, bool* nt) {
    typedef FB<T> F;
    auto cls = [&](unsigned k) { o->classes |= 1u << k; *nt = true; };
    if (F::isnan(x) || F::isinf(x)) { cls(CL_NAN_INF); return; }
    int e = (int)F::exp(x) - (int)((1u << (F::EB - 1)) - 1);
    if (e >= (int)F::MB - 2 && e <= (int)F::MB + 1) cls(CL_NEAR_2P);
    if (e < 0) cls(CL_LT_ONE);
    if (F::isintegral(x)) { o->classes |= 1u << CL_INTEGRAL; return; }
    if (e >= -1 && e < (int)F::MB) {
        // tie: fractional part exactly one half
        uint64_t fracbits = e >= 0 ? (F::mant(x) & ((1ull << (F::MB - e)) - 1)) : 0, half = e >= 0 ? (1ull << (F::MB - e - 1)) : 0;
        if (e == -1 && F::mant(x) == 0) cls(CL_TIE);
        else if (e >= 0 && fracbits == half) cls(CL_TIE);
        else if (e >= 0 && (fracbits == half + 1 || fracbits + 1 == half)) cls(CL_NEAR_TIE);
        else if (e == -1 && (F::mant(x) == 1)) cls(CL_NEAR_TIE);
        else if (e == -2 && F::mant(x) == ((1ull << F::MB) - 1)) cls(CL_NEAR_TIE);
    }
    if ((x & F::sgn()) && F::iszero(libm)) cls(CL_NEG_TO_ZERO);
}

template<class V> static void run(const VpCase* c, VpOutcome* o) {
    typedef typename V::scalar T;
    typedef FB<T> F;
    const unsigned W = V::width;
    const unsigned op = c->op;
    uint64_t al[VP_MAXL], bl[VP_MAXL], got[VP_MAXL], exp[VP_MAXL];
    for (unsigned i = 0; i < W; ++i) { al[i] = c->v[0][i] & F::mask(); bl[i] = c->v[1][i] & F::mask(); }
    int mode = (int)((c->s[0] < 0 ? -c->s[0] : c->s[0]) % 4);
    bool nt = false;
    if (op == OP_ENV) {
        // s1: FTZ/DAZ selection, s2: which operation
        unsigned ftzdaz = (unsigned)(c->s[1] < 0 ? -c->s[1] : c->s[1]) % 4, k = (unsigned)(c->s[2] < 0 ? -c->s[2] : c->s[2]);
        V a = mk<V>(al), b = mk<V>(bl);
        ref_setround(mode);
        uint32_t saved = ref_get_mxcsr();
        ref_set_mxcsr((saved & ~0x8040u) | ((ftzdaz & 1) ? 0x8000u : 0) | ((ftzdaz & 2) ? 0x0040u : 0));
        FpEnv before = FpEnv::take();
        volatile uint64_t sink = env_sample<V>(k, &a, &b); (void)sink;
        FpEnv after = FpEnv::take();
        ref_set_mxcsr(0x1F80); ref_setround(0);
        if (mode) { o->classes |= 1u << CL_DIRECTED_MODE; nt = true; }
        if (ftzdaz) { o->classes |= 1u << CL_FTZ_DAZ; nt = true; }
        o->nontrivial = nt; if (!nt) o->classes |= 1u << CL_ORDINARY;
        ++o->lanes_compared;
        if (!before.same(after)) {
            char tag[96]; std::snprintf(tag, sizeof tag, "fp_environment_changed:op%u", k % ENV_OPS);
            fail(o, -1, tag, "operation #%u changed the FP environment: MXCSR control %04x -> %04x, x87 cw %04x -> %04x (mode %d, ftz/daz %u)", k % ENV_OPS, before.mxcsr_ctl, after.mxcsr_ctl, before.x87, after.x87, mode, ftzdaz);
        }
        return;
    }
    const bool scalar = op >= OP_SC0;
    const unsigned f = scalar ? op - OP_SC0 : op;
    if (scalar && W != 1) { o->status = 2; return; }
    // the rounding functions are also run with FTZ and/or DAZ enabled (s0 / 4): the environment must come back unchanged, and every lane
    // whose input is not subnormal must still give the <cmath> value (no subnormal is involved, so FTZ/DAZ cannot legitimately matter)
    const unsigned ftzdaz = (unsigned)(((c->s[0] < 0 ? -c->s[0] : c->s[0]) / 4) % 4);
    // how the rounding mode is set (s1): 0 = fesetround (SSE and x87 together, as before); 1 = MXCSR only (_MM_SET_ROUNDING_MODE: what SIMD code
    // does), the x87 control word stays at nearest; 2 = x87 control word only: SSE arithmetic and <cmath> stay in round-to-nearest, so must AVEL
    const unsigned src = (unsigned)((c->s[1] < 0 ? -c->s[1] : c->s[1]) % 3);
    FpEnv before, after;
    {
        RoundGuard g(src == 0 ? mode : 0);
        struct X87Restore { uint32_t cw; ~X87Restore() { ref_set_x87cw(cw); } } xr = {ref_get_x87cw()};
        if (src == 1) ref_set_mxcsr((ref_get_mxcsr() & ~0x6000u) | ((uint32_t)mode << 13));
        if (src == 2) ref_set_x87cw((ref_get_x87cw() & ~0x0C00u) | ((uint32_t)mode << 10));
        struct CsrRestore { bool on; ~CsrRestore() { if (on) ref_set_mxcsr(ref_get_mxcsr() & ~0x6000u); } } cr = {src == 1};
        for (unsigned i = 0; i < W; ++i) exp[i] = Ref<T>::un(RF[f], al[i]);
        const uint32_t saved = ref_get_mxcsr();
        if (ftzdaz) ref_set_mxcsr((saved & ~0x8040u) | ((ftzdaz & 1) ? 0x8000u : 0) | ((ftzdaz & 2) ? 0x0040u : 0));
        struct Restore { uint32_t v; bool on; ~Restore() { if (on) ref_set_mxcsr(v); } } restore = {saved, ftzdaz != 0};
        before = FpEnv::take();
        poison_below(al[0] ^ f);
        if (scalar) { T x = elem<T>::from_bits(al[0]), y; do_sc<T>(f, &x, &y); got[0] = elem<T>::to_bits(y); }
        else { V a = mk<V>(al), r = a; do_vec<V>(f, &a, &r); rd<V>(r, got); }
        after = FpEnv::take();
    }
    if (mode) { o->classes |= 1u << CL_DIRECTED_MODE; nt = true; }
    if (ftzdaz) { o->classes |= 1u << CL_FTZ_DAZ; nt = true; }
    for (unsigned i = 0; i < W; ++i) classify<T>(al[i], exp[i], o, &nt);
    if (!before.same(after)) { fail(o, -1, "fp_environment_changed", "%s changed the FP environment: MXCSR control %04x -> %04x, x87 cw %04x -> %04x", OPS[op].name, before.mxcsr_ctl, after.mxcsr_ctl, before.x87, after.x87); return; }
    // comparison per the statement: NaN -> NaN; integral or infinite input -> output bit-identical to the input; otherwise numerically equal to libm
    const char* failtag = nullptr; int bad = -1;
    for (unsigned i = 0; i < W; ++i) {
        o->expect[i] = exp[i]; o->actual[i] = got[i];
        if (ftzdaz && F::exp(al[i]) == 0 && F::mant(al[i]) != 0) continue;      // subnormal input with FTZ/DAZ on: DAZ reads it as zero, not compared
        ++o->lanes_compared;
        if (F::isnan(al[i])) { if (!F::isnan(got[i]) && !failtag) { failtag = "nan_input"; bad = (int)i; } continue; }
        if (F::isinf(al[i]) || F::isintegral(al[i])) {
            // "infinities and already-integral values unchanged": the same number must come back. +0 and -0 are the same number, so a
            // changed zero sign is counted (zero_sign_differs_from_libm) but is not a violation.
            o->expect[i] = al[i];
            if (!F::numeq(got[i], al[i])) { if (!failtag) { failtag = F::isinf(al[i]) ? "integral_input_changed:inf" : "integral_input_changed"; bad = (int)i; } }
            else if (got[i] != al[i]) o->classes |= 1u << CL_ZERO_SIGN_DIFFERS;
            continue;
        }
        if (!F::numeq(got[i], exp[i])) { if (!failtag) { failtag = "value"; bad = (int)i; } continue; }
        if (got[i] != exp[i]) o->classes |= 1u << CL_ZERO_SIGN_DIFFERS;
    }
    if (nt) o->nontrivial = 1; else o->classes |= 1u << CL_ORDINARY;
    if (failtag) {
        char tag[96]; std::snprintf(tag, sizeof tag, "%s:mode%d%s%s", failtag, mode, ftzdaz ? ":ftz_daz" : "", src == 1 ? ":mxcsr_only" : src == 2 ? ":x87_only" : "");
        fail(o, bad, tag, "%s(0x%llx) under rounding mode %d: expected 0x%llx got 0x%llx (lane %d)", OPS[op].name, (unsigned long long)al[bad], mode, (unsigned long long)o->expect[bad], (unsigned long long)got[bad], bad);
    }
}

extern "C" void vp_run(const VpCase* c, VpOutcome* o) {
    ref_set_mxcsr(0x1F80); ref_setround(0);     // a Case that ended in a signal skipped the restoring destructors
    switch (c->target) {
#define X(n) case T_##n: run<avel::n>(c, o); return;
        VP_FLT_VECS(X)
#undef X
#define X(n) case T_##n: IntEnv<avel::n>::run(c, o); return;
        VP_INT_VECS(X)
#undef X
    default: o->status = 2; return;
    }
}

static std::vector<uint64_t> dbl_values() {
    std::vector<uint64_t> L = vpl::flt_lattice(64);
    // every exponent x boundary mantissas, all half-integers and neighbours near 2^52
    for (uint64_t e = 0; e < 2047; ++e) for (uint64_t mt : {0ull, 1ull, (1ull << 51), (1ull << 51) + 1, (1ull << 51) - 1, (1ull << 52) - 1, 0x8000000000000ull >> (e % 52), (0x8000000000000ull >> (e % 52)) + 1, (0x8000000000000ull >> (e % 52)) - 1})
        for (uint64_t s : {0ull, 1ull}) L.push_back((s << 63) | (e << 52) | (mt & ((1ull << 52) - 1)));
    for (int64_t k = -40; k <= 40; ++k) for (double base : {4503599627370496.0, 2251799813685248.0, 1125899906842624.0, 9007199254740992.0}) { double d = base + k * 0.5; uint64_t b; std::memcpy(&b, &d, 8); L.push_back(b); L.push_back(b ^ (1ull << 63)); }
    return L;
}

extern "C" void vp_enum(int tier, uint64_t seed, uint32_t shard, uint32_t nshards, void (*emit)(const VpCase*, void*), void* ctx) {
    uint32_t nt; const VpTarget* T = vp_targets(&nt);
    uint64_t job = 0;
    for (uint32_t t = 0; t < nt; ++t) {
        if (!T[t].present) continue;
        const unsigned W = T[t].width, B = T[t].bits;
        if (T[t].cls != 2) {
            // integer vector types: the environment invariant over the integer operation sample x rounding mode x FTZ/DAZ setting
            if ((job++ % nshards) != shard) continue;
            const std::vector<uint64_t> I = vpl::int_lattice_small(B);
            for (unsigned k = 0; k < ENV_INT_OPS; ++k) for (int mode = 0; mode < 4; ++mode) for (unsigned fd = 0; fd < 4; ++fd) for (unsigned rep = 0; rep < 2; ++rep) {
                VpCase c; std::memset(&c, 0, sizeof c); c.target = t; c.op = OP_ENV; c.s[0] = mode; c.s[1] = fd; c.s[2] = k + ENV_INT_OPS * (k % 8);
                for (unsigned i = 0; i < W; ++i) { c.v[0][i] = I[(k * 31 + i * 7 + mode + rep * 13) % I.size()]; c.v[1][i] = I[(k * 17 + i * 3 + fd + 5 + rep * 29) % I.size()]; }
                emit(&c, ctx);
            }
            continue;
        }
        std::vector<uint64_t> L = B == 32 ? vpl::flt_lattice(32) : dbl_values();
        const size_t n = L.size();
        for (unsigned op = 0; op < OP_ENV; ++op) {
            if ((job++ % nshards) != shard) continue;
            if (op >= OP_SC0 && W != 1) continue;
            const unsigned f = op % F_COUNT;
            for (int mf = 0; mf < 13; ++mf) {
                // all four rounding modes with FTZ/DAZ off, then each FTZ/DAZ combination under one rounding mode, then the three directed modes set
                // through MXCSR only and through the x87 control word only
                const int mode = mf < 4 ? mf : mf < 7 ? (int)((mf + f) % 4) : 1 + (mf - 7) % 3, fd = (mf >= 4 && mf < 7) ? mf - 3 : 0, src = mf < 7 ? 0 : 1 + (mf - 7) / 3;
                if (!tier && mf >= 7 && f < F_NEARBYINT && ((mf + f + seed) % 3) != 0) continue;      // quick: ceil/floor/trunc/round see a third of the mode-source combinations
                VpCase c; std::memset(&c, 0, sizeof c); c.target = t; c.op = op; c.s[0] = mode + 4 * fd; c.s[1] = src;
                size_t fill = 0; uint64_t rot = seed + op + mode;
                for (size_t i = 0; i < n; ++i) { c.v[0][(fill + rot) % W] = L[i]; if (++fill == W) { emit(&c, ctx); fill = 0; ++rot; } }
                if (fill) emit(&c, ctx);
            }
        }
        // environment invariant: every sampled operation x rounding mode x FTZ/DAZ setting
        if ((job++ % nshards) == shard)
            for (unsigned k = 0; k < ENV_OPS; ++k) for (int mode = 0; mode < 4; ++mode) for (unsigned fd = 0; fd < 4; ++fd) {
                VpCase c; std::memset(&c, 0, sizeof c); c.target = t; c.op = OP_ENV; c.s[0] = mode; c.s[1] = fd; c.s[2] = k;
                for (unsigned i = 0; i < W; ++i) { c.v[0][i] = L[(k * 31 + i * 7 + mode) % n]; c.v[1][i] = L[(k * 17 + i * 3 + fd + 5) % n]; }
                emit(&c, ctx);
            }
    }
}

// binary32: every bit pattern (thorough) or a stride-by-prime subset (quick), every function, nearbyint/rint in all four modes
template<class V> static void sweep32(unsigned t, uint64_t seed, int tier, uint32_t shard, uint32_t nshards, void (*emit)(const VpCase*, void*), void* ctx, uint64_t* evals, uint64_t* lanes) {
    const unsigned W = V::width;
#if defined(AVEL_SSE2)
    if (W == 1 && tier) return;      // thorough: the width-1 type is scalar code, identical in every build: swept completely in the build without macros only
#endif
    for (unsigned f = 0; f < F_COUNT; ++f)
        for (int mode = 0; mode < 4; ++mode) {
            if (!tier && f < F_NEARBYINT && mode != 0 && mode != (int)((seed + f) % 3) + 1) continue;   // quick: ceil/floor/trunc/round swept in nearest + one directed mode
            // thorough: every bit pattern for each function in round-to-nearest and for nearbyint / rint in every mode; ceil/floor/trunc/round
            // (which do not depend on the mode) under the directed modes with a stride of 251
            const uint64_t stride = tier ? ((mode == 0 || f >= F_NEARBYINT) ? 1 : 251) : 1031;
            VpCase c; std::memset(&c, 0, sizeof c); c.target = t; c.op = f; c.s[0] = mode;
            bool failed = false;
            for (uint64_t base = ((seed * 7 + f) % stride) + (uint64_t)shard * W * stride; base < (1ull << 32) && !failed; base += (uint64_t)nshards * W * stride) {
                for (unsigned i = 0; i < W; ++i) c.v[0][i] = (base + i * stride) & 0xFFFFFFFFull;
                VpOutcome o; std::memset(&o, 0, sizeof o); o.bad_lane = -1;
                run<V>(&c, &o);
                ++*evals; *lanes += o.lanes_compared;
                if (o.status == 1) { emit(&c, ctx); failed = true; }
            }
        }
}

extern "C" void vp_sweep(int tier, uint64_t seed, uint32_t shard, uint32_t nshards, void (*emit)(const VpCase*, void*), void* ctx, uint64_t* evals, uint64_t* lanes, char* d, size_t cap) {
#define X(n) if (sizeof(avel::n::scalar) == 4) sweep32<avel::n>(T_##n, seed, tier, shard, nshards, emit, ctx, evals, lanes);
    VP_FLT_VECS(X)
#undef X
    if (tier) std::snprintf(d, cap, "all 2^32 binary32 bit patterns for ceil/floor/trunc/round in round-to-nearest and for nearbyint/rint under each of the four rounding modes (ceil/floor/trunc/round under the directed modes: every 251st pattern), every float vector width");
    else d[0] = 0;
}
