// C14: scalar Denominator<T> reproduces n/d and n%d for every n and non-zero d.
// C15 (-DVP_PROP_C15): vector Denominator divides each lane exactly, also when broadcast from a scalar one.
#define VP_CHECK_OBJECT
#include "../vp.hpp"
#include "../lattice.hpp"

using namespace vp;

enum { OP_DIV, OP_QUOT, OP_REM, OP_QUOT_A, OP_REM_A, OP_VALUE, OP_BC_DIV, OP_BC_VALUE, OP_HELPER, OP_COUNT };
static const VpOp OPS[] = {
    {"div", {VK_INT, VK_INT_REL}, {}, 4}, {"operator/", {VK_INT, VK_INT_REL}, {}, 2}, {"operator%", {VK_INT, VK_INT_REL}, {}, 2}, {"operator/=", {VK_INT, VK_INT_REL}, {}, 1}, {"operator%=", {VK_INT, VK_INT_REL}, {}, 1},
    {"value", {VK_INT, VK_INT_REL}, {}, 1}, {"broadcast_div", {VK_INT, VK_INT_REL}, {}, 3}, {"broadcast_value", {VK_INT, VK_INT_REL}, {}, 1},
    // the 128-by-64-bit division every 64-bit denominator computes its multiplier with: div_64uhi_by_64u(x, y) = floor(x * 2^64 / y) for x < y (vec1x64u only)
    {"div_64uhi_by_64u", {VK_RAW, VK_RAW}, {}, 1},
};
enum { CL_D_PM1, CL_D_POW2, CL_D_MIN, CL_D_MAX, CL_N_NEAR_MULTIPLE_AT_END, CL_DISTINCT_DIVISORS, CL_BROADCAST, CL_NEG, CL_ORDINARY, CL_DIGIT_EDGE };
static const char* const CLASSES[] = {"divisor_plus_minus_1", "divisor_power_of_two", "divisor_MIN", "divisor_MAX", "numerator_within_1_of_multiple_near_range_end",
                                      "distinct_divisors_in_lanes", "broadcast_from_scalar_denominator", "negative_operand", "ordinary", "trial_digit_on_correction_edge"};
#ifdef VP_PROP_C15
extern "C" const char* vp_property(void) { return "C15"; }
extern "C" const char* vp_rule(void) {
    return "a case is a numerator vector, a vector of non-zero divisors (different per lane) or one scalar divisor broadcast through Denominator<V>(Denominator<T>(d)), and a form "
           "(div, /, %, /=, %=, value); non-trivial = lanes with distinct divisors including one of {+-1, 2^k, MIN}, or a broadcast case with |d| > 1; distinct = distinct hash of the Case";
}
#define TGT(c) ((c) != 2)
#else
extern "C" const char* vp_property(void) { return "C14"; }
extern "C" const char* vp_rule(void) {
    return "a case is (n, d) with d != 0 (and not MIN/-1) for one of the eight integer types and a form (div, /, %, /=, %=, value); non-trivial = |d| in {1, 2^k, MIN, MAX} or n within 1 of a "
           "multiple of d in the top or bottom 2^-8 of the range, or (div_64uhi_by_64u) operands for which a 32-bit trial digit of the long division is two too large; distinct = distinct hash of the Case";
}
#define TGT(c) ((c) != 2)
#endif
extern "C" const VpOp* vp_ops(uint32_t* n) { *n = OP_COUNT; return OPS; }
extern "C" const char* const* vp_class_names(uint32_t* n) { 
#ifdef VP_PROP_C15
    *n = 9;
#else
    *n = 10;
#endif
    return CLASSES; }
VP_DEFINE_VECTOR_TARGETS(TGT)

template<class T> static void classify(uint64_t n, uint64_t d, VpOutcome* o, bool* nt) {
    const unsigned B = elem<T>::bits; const uint64_t m = elem<T>::mask(), MINP = 1ull << (B - 1);
    i128 a = elem<T>::is_signed ? (i128)elem<T>::sval(n) : (i128)(n & m), b = elem<T>::is_signed ? (i128)elem<T>::sval(d) : (i128)(d & m);
    i128 ab = b < 0 ? -b : b;
    auto cls = [&](unsigned k) { o->classes |= 1u << k; *nt = true; };
    if (ab == 1) cls(CL_D_PM1);
    if (ab > 1 && (ab & (ab - 1)) == 0) cls(CL_D_POW2);
    if (elem<T>::is_signed && (d & m) == MINP) cls(CL_D_MIN);
    if ((d & m) == (elem<T>::is_signed ? MINP - 1 : m)) cls(CL_D_MAX);
    if (a < 0 || b < 0) o->classes |= 1u << CL_NEG;
    // n within 1 of a multiple of d, in the top or bottom 2^-8 of the range
    i128 lo = elem<T>::is_signed ? -(i128)MINP : 0, hi = elem<T>::is_signed ? (i128)MINP - 1 : (i128)m, span = (hi - lo) >> 8;
    i128 r = a % b; if (r < 0) r = -r;
    if ((r <= 1 || ab - r <= 1) && (a - lo <= span || hi - a <= span)) cls(CL_N_NEAR_MULTIPLE_AT_END);
}

#ifndef VP_PROP_C15
template<class T> static typename std::enable_if<!std::is_same<T, std::uint64_t>::value>::type helper_op(const VpCase*, VpOutcome* o) { o->status = 2; }
template<class T> static typename std::enable_if<std::is_same<T, std::uint64_t>::value>::type helper_op(const VpCase* c, VpOutcome* o) {
    uint64_t y = c->v[1][0]; if (y == 0) y = 1;
    uint64_t x = c->v[0][0] % y;                       // precondition of the helper: x < y, so that the quotient fits 64 bits
    const uint64_t exp = (uint64_t)((((u128)x) << 64) / y);
    // classification: would a one-digit trial quotient of the schoolbook division be two too large (first digit)?
    {
        const int sh = __builtin_clzll(y); const uint64_t den = y << sh, num = x << sh, den1 = den >> 32, den0 = den & 0xFFFFFFFFull;
        const uint64_t qh = num / den1; const u128 tq = (((u128)num) << 32) / den;
        if (qh >= (uint64_t)tq + 2) { o->classes |= 1u << CL_DIGIT_EDGE; o->nontrivial = 1; }
        (void)den0;
    }
    if ((y & (y - 1)) == 0) { o->classes |= 1u << CL_D_POW2; o->nontrivial = 1; }
    if (!o->nontrivial) o->classes |= 1u << CL_ORDINARY;
    uint64_t got = avel::div_64uhi_by_64u(x, y);
    cmp_lanes(o, 1, &exp, &got, nullptr, "div_64uhi_by_64u", "floor(x * 2^64 / y)");
}
template<class V> static void run(const VpCase* c, VpOutcome* o) {
    typedef typename V::scalar T;
    if (V::width != 1) { o->status = 2; return; }
    if (c->op == OP_HELPER) { helper_op<T>(c, o); return; }
    if (c->op >= OP_BC_DIV) { o->status = 2; return; }
    const uint64_t m = elem<T>::mask(), MINP = 1ull << (elem<T>::bits - 1);
    uint64_t n = c->v[0][0] & m, d = c->v[1][0] & m;
    if (d == 0) d = 1;
    if (elem<T>::is_signed && n == MINP && d == m) d = 1;
    bool nt = false; classify<T>(n, d, o, &nt);
    if (nt) o->nontrivial = 1; else o->classes |= 1u << CL_ORDINARY;
    i128 a = elem<T>::is_signed ? (i128)elem<T>::sval(n) : (i128)n, b = elem<T>::is_signed ? (i128)elem<T>::sval(d) : (i128)d;
    uint64_t eq = (uint64_t)(a / b) & m, er = (uint64_t)(a % b) & m, gq = 0, gr = 0;
    T nn = elem<T>::from_bits(n), dd = elem<T>::from_bits(d);
    avel::Denominator<T> den(dd);
    bool hq = false, hr = false;
    switch (c->op) {
    case OP_DIV: { auto r = div(nn, den); gq = elem<T>::to_bits(r.quot); gr = elem<T>::to_bits(r.rem); hq = hr = true; break; }
    case OP_QUOT: gq = elem<T>::to_bits((T)(nn / den)); hq = true; break;
    case OP_REM: gr = elem<T>::to_bits((T)(nn % den)); hr = true; break;
    case OP_QUOT_A: { T x = nn; x /= den; gq = elem<T>::to_bits(x); hq = true; break; }
    case OP_REM_A: { T x = nn; x %= den; gr = elem<T>::to_bits(x); hr = true; break; }
    default: { gq = elem<T>::to_bits((T)den.value()); eq = d; hq = true; break; }
    }
    const char* dk = ((o->classes >> CL_D_PM1) & 1) ? "d_pm1" : ((o->classes >> CL_D_MIN) & 1) ? "d_min" : ((o->classes >> CL_D_POW2) & 1) ? "d_pow2" : "d_other";
    char tag[96];
    if (hq) { std::snprintf(tag, sizeof tag, "%s:%s", c->op == OP_VALUE ? "value" : "quot", dk); if (!cmp_lanes(o, 1, &eq, &gq, nullptr, tag, c->op == OP_VALUE ? "value()" : "quotient")) return; }
    if (hr) { std::snprintf(tag, sizeof tag, "rem:%s", dk); if (!cmp_lanes(o, 1, &er, &gr, nullptr, tag, "remainder")) return; }
    if (c->op == OP_DIV) {
        uint64_t back = ((uint64_t)((u128)gq * (u128)d) + gr) & m;
        if (back != n) fail(o, 0, "relation:q*d+r", "q*d+r != n (q=0x%llx r=0x%llx)", (unsigned long long)gq, (unsigned long long)gr);
    }
}
#else
// is the documented broadcast constructor Denominator<V>(Denominator<T>) there?
template<class V, bool C = std::is_constructible<avel::Denominator<V>, avel::Denominator<typename V::scalar> >::value> struct Bcast {
    static const bool available = true;
    static avel::Denominator<V> make(avel::Denominator<typename V::scalar> s) { return avel::Denominator<V>(s); }
};
template<class V> struct Bcast<V, false> {
    static const bool available = false;
    static avel::Denominator<V> make(avel::Denominator<typename V::scalar>) { uint64_t one[VP_MAXL]; for (unsigned i = 0; i < VP_MAXL; ++i) one[i] = 1; return avel::Denominator<V>(mk<V>(one)); }
};
template<class V> static void run(const VpCase* c, VpOutcome* o) {
    typedef typename V::scalar T;
    const unsigned W = V::width;
    const uint64_t m = elem<T>::mask(), MINP = 1ull << (elem<T>::bits - 1);
    uint64_t n[VP_MAXL], d[VP_MAXL], eq[VP_MAXL], er[VP_MAXL], gq[VP_MAXL], gr[VP_MAXL];
    if (c->op == OP_HELPER) { o->status = 2; return; }
    const bool bc = c->op >= OP_BC_DIV;
    bool nt = false, distinct = false, special = false;
    for (unsigned i = 0; i < W; ++i) {
        n[i] = c->v[0][i] & m; d[i] = (bc ? c->v[1][0] : c->v[1][i]) & m;
        if (d[i] == 0) d[i] = 1 + (i & 1) * 2;
        if (elem<T>::is_signed && n[i] == MINP && d[i] == m) n[i] = MINP + 1;     // MIN/-1 is excepted: move the numerator, keep the divisor
        if (i && d[i] != d[i - 1]) distinct = true;
    }
    if (bc) for (unsigned i = 1; i < W; ++i) d[i] = d[0];
    for (unsigned i = 0; i < W; ++i) {
        bool lt = false; uint32_t before = o->classes;
        classify<T>(n[i], d[i], o, &lt);
        if (o->classes & ((1u << CL_D_PM1) | (1u << CL_D_POW2) | (1u << CL_D_MIN))) special = true;
        (void)before;
        i128 a = elem<T>::is_signed ? (i128)elem<T>::sval(n[i]) : (i128)n[i], b = elem<T>::is_signed ? (i128)elem<T>::sval(d[i]) : (i128)d[i];
        eq[i] = (uint64_t)(a / b) & m; er[i] = (uint64_t)(a % b) & m;
    }
    if (distinct) o->classes |= 1u << CL_DISTINCT_DIVISORS;
    if (distinct && special) nt = true;
    if (bc) { o->classes |= 1u << CL_BROADCAST; i128 b0 = elem<T>::is_signed ? (i128)elem<T>::sval(d[0]) : (i128)d[0]; if (b0 > 1 || b0 < -1) nt = true; }
    if (W == 1 && (o->classes & ((1u << CL_D_PM1) | (1u << CL_D_POW2) | (1u << CL_D_MIN) | (1u << CL_N_NEAR_MULTIPLE_AT_END)))) nt = true;
    if (nt) o->nontrivial = 1; else o->classes |= 1u << CL_ORDINARY;
    V nv = mk<V>(n), dv = mk<V>(d);
    bool hq = false, hr = false, isval = false;
    if (!bc) {
        avel::Denominator<V> den(dv);
        switch (c->op) {
        case OP_DIV: { auto r = div(nv, den); rd<V>(r.quot, gq); rd<V>(r.rem, gr); hq = hr = true; break; }
        case OP_QUOT: rd<V>(nv / den, gq); hq = true; break;
        case OP_REM: rd<V>(nv % den, gr); hr = true; break;
        case OP_QUOT_A: { V x = nv; x /= den; rd<V>(x, gq); hq = true; break; }
        case OP_REM_A: { V x = nv; x %= den; rd<V>(x, gr); hr = true; break; }
        default: rd<V>(den.value(), gq); for (unsigned i = 0; i < W; ++i) eq[i] = d[i]; hq = isval = true; break;
        }
    } else {
        if (!Bcast<V>::available) {
            fail(o, -1, "broadcast_constructor_missing", "Denominator<%s> cannot be constructed from Denominator<scalar>: no matching constructor", "V");
            return;
        }
        avel::Denominator<T> sden(elem<T>::from_bits(d[0]));
        avel::Denominator<V> den = Bcast<V>::make(sden);
        if (c->op == OP_BC_DIV) {
            auto r = div(nv, den); rd<V>(r.quot, gq); rd<V>(r.rem, gr); hq = hr = true;
            // must equal, lane for lane, the denominator built from the vector {d,d,...}
            avel::Denominator<V> den2(dv); auto r2 = div(nv, den2); uint64_t q2[VP_MAXL], r2l[VP_MAXL]; rd<V>(r2.quot, q2); rd<V>(r2.rem, r2l);
            for (unsigned i = 0; i < W; ++i) if (q2[i] != gq[i] || r2l[i] != gr[i]) {
                for (unsigned k = 0; k < W; ++k) { o->expect[k] = q2[k]; o->actual[k] = gq[k]; }
                fail(o, (int)i, "broadcast_differs_from_vector_denominator", "lane %u: Denominator<V>(Denominator<T>(d)) gives q=0x%llx r=0x%llx, Denominator<V>(V{d}) gives q=0x%llx r=0x%llx", i,
                     (unsigned long long)gq[i], (unsigned long long)gr[i], (unsigned long long)q2[i], (unsigned long long)r2l[i]); return; }
        } else { rd<V>(den.value(), gq); for (unsigned i = 0; i < W; ++i) eq[i] = d[i]; hq = isval = true; }
    }
    char tag[96];
    const char* pre = bc ? "broadcast_" : "";
    if (hq) { std::snprintf(tag, sizeof tag, "%s%s", pre, isval ? "value" : "quot"); if (!cmp_lanes(o, W, eq, gq, nullptr, tag, isval ? "value()" : "quotient")) return; }
    if (hr) { std::snprintf(tag, sizeof tag, "%srem", pre); if (!cmp_lanes(o, W, er, gr, nullptr, tag, "remainder")) return; }
}
#endif

extern "C" void vp_run(const VpCase* c, VpOutcome* o) {
    switch (c->target) {
#define X(n) case T_##n: run<avel::n>(c, o); return;
        VP_INT_VECS(X)
#undef X
    default: o->status = 2; return;
    }
}

// numerators for one divisor: 0, +-1, MIN, MAX, the multiples of d nearest the range ends and their neighbours, k*d+-1
static void numerators_for(unsigned B, bool sgn, uint64_t d, uint64_t seed, std::vector<uint64_t>& out) {
    const uint64_t m = B == 64 ? ~0ull : ((1ull << B) - 1), MINP = 1ull << (B - 1);
    out.clear();
    i128 lo = sgn ? -(i128)MINP : 0, hi = sgn ? (i128)MINP - 1 : (i128)m;
    i128 b = sgn ? (i128)(int64_t)((d & MINP) ? (d | ~m) : d) : (i128)d; if (b == 0) b = 1;
    auto add = [&](i128 x) { if (x >= lo && x <= hi) out.push_back((uint64_t)x & m); };
    for (i128 x : {(i128)0, (i128)1, (i128)-1, lo, hi, lo + 1, hi - 1}) add(x);
    i128 ab = b < 0 ? -b : b;
    i128 top = hi - (hi % ab), bot = lo - (lo % ab);
    for (i128 base : {top, top - ab, bot, bot + ab, ab, -ab, 2 * ab, (i128)((seed % 251) + 2) * ab, -(i128)((seed % 127) + 2) * ab, ((hi / ab) / 2) * ab})
        for (int k = -1; k <= 1; ++k) add(base + k);
    uint64_t x = seed * 0x9E3779B97F4A7C15ull + d;
    for (int k = 0; k < 3; ++k) { x ^= x >> 29; x *= 0xBF58476D1CE4E5B9ull; add(sgn ? (i128)(int64_t)(((x & m) & MINP) ? ((x & m) | ~m) : (x & m)) : (i128)(x & m)); }
}

// divisors with a multiple c*d (c next to 2^(B/2)) next to a power of two, d = floor / ceil(2^k / c): the magic-number computation divides a power of two
// by d digit by digit, and these are the divisors for which a trial digit sits on the edge of its correction step
static void reciprocal_divisors(unsigned B, bool sgn, int tier, std::vector<uint64_t>& D) {
    const unsigned h = B / 2; const uint64_t m = B == 64 ? ~0ull : ((1ull << B) - 1);
    const unsigned J = tier ? 24 : 8;
    // ... and the same with c anywhere in [2^(h-1), 2^h): the quotient floor(2^k / d) is then c - 1 with a remainder next to d, the situation in which
    // the trial digits of a digit-by-digit division need their largest correction
    {
        const uint64_t NC = B == 64 ? (tier ? 120000 : 16000) : (tier ? 4000 : 500);
        uint64_t z = 0x243F6A8885A308D3ull + B;
        for (uint64_t i = 0; i < NC; ++i) {
            z += 0x9E3779B97F4A7C15ull; uint64_t r = z; r ^= r >> 30; r *= 0xBF58476D1CE4E5B9ull; r ^= r >> 27; r *= 0x94D049BB133111EBull; r ^= r >> 31;
            const uint64_t half = 1ull << (h - 1);
            const u128 c = (i & 1) ? (u128)((half << 1) - 1 - ((r >> 8) % (half < 65536 ? half : 65536))) : (u128)(half + (r >> 8) % half);
            const unsigned k = h + 2 + (unsigned)(r % (B - 2));
            const u128 d = (((u128)1) << k) / c + 1;
            if (d < 2 || d > (u128)(sgn ? (m >> 1) : m)) continue;
            D.push_back((uint64_t)d & m);
            if (sgn && (i & 2)) D.back() = (uint64_t)(0 - (uint64_t)d) & m;
        }
    }
    for (unsigned k = h + 2; k <= B + h - 1; ++k)
        for (unsigned j = 1; j <= 2 * J; ++j) {
            const u128 c = j <= J ? ((u128)1 << h) - j : ((u128)1 << h) + (j - J);
            const u128 p = (u128)1 << k;
            for (u128 d : {p / c, p / c + 1}) {
                if (d < 2 || d > (u128)(sgn ? (m >> 1) : m)) continue;
                D.push_back((uint64_t)d & m);
                if (sgn) D.push_back((uint64_t)(0 - (uint64_t)d) & m);
            }
        }
}

extern "C" void vp_enum(int tier, uint64_t seed, uint32_t shard, uint32_t nshards, void (*emit)(const VpCase*, void*), void* ctx) {
    uint32_t nt; const VpTarget* T = vp_targets(&nt);
    uint64_t job = 0;
    for (uint32_t t = 0; t < nt; ++t) {
        if (!T[t].present) continue;
        const unsigned W = T[t].width, B = T[t].bits; const bool sgn = T[t].cls == 1;
#ifndef VP_PROP_C15
        if (W != 1) continue;
#endif
        std::vector<uint64_t> D = vpl::int_lattice(B);
        if (B == 8) { D.clear(); for (unsigned x = 1; x < 256; ++x) D.push_back(x); }
        else reciprocal_divisors(B, sgn, tier, D);
        for (unsigned op = 0; op < OP_COUNT; ++op) {
            if ((job++ % nshards) != shard) continue;
#ifndef VP_PROP_C15
            if (op >= OP_BC_DIV && op != OP_HELPER) continue;
#endif
            VpCase c; std::memset(&c, 0, sizeof c); c.target = t; c.op = op;
            if (op == OP_HELPER) {
#ifndef VP_PROP_C15
                if (B != 64 || sgn) continue;
                // (1) operands built so that the first trial digit sits exactly on the edge between "one too large" and "two too large";
                // (2) lattice x lattice
                uint64_t z = seed * 0x9E3779B97F4A7C15ull + 12345;
                auto nx = [&]() { z += 0x9E3779B97F4A7C15ull; uint64_t r = z; r ^= r >> 30; r *= 0xBF58476D1CE4E5B9ull; r ^= r >> 27; r *= 0x94D049BB133111EBull; r ^= r >> 31; return r; };
                for (unsigned i = 0; i < (tier ? 400000u : 40000u); ++i) {
                    uint64_t den1 = 0x80000000ull + nx() % 0x7FFFFFFFull; if (i % 16 == 0) den1 = 0x80000000ull + (i / 16) % 64;
                    const uint64_t den0 = den1 + 1 + nx() % (0xFFFFFFFFull - den1);                    // den0 in (den1, 2^32)
                    const uint64_t qmin = (uint64_t)((((u128)den1) << 32) / den0) + 1; if (qmin > 0xFFFFFFFFull) continue;
                    const uint64_t qhat = qmin + nx() % (0x100000000ull - qmin);
                    const uint64_t hi = (uint64_t)(((u128)qhat * den0) >> 32); if (hi < den1 || hi >= 2 * den1) continue;
                    const uint64_t rhat = hi - den1;
                    c.v[0][0] = qhat * den1 + rhat; c.v[1][0] = (den1 << 32) | den0;
                    emit(&c, ctx);
                }
                { const std::vector<uint64_t> L = vpl::int_lattice(64);
                  for (size_t i = 0; i < L.size(); i += (tier ? 1 : 2)) for (size_t j = (i % 3); j < L.size(); j += (tier ? 1 : 3)) { c.v[0][0] = L[i]; c.v[1][0] = L[j]; emit(&c, ctx); } }
#endif
                continue;
            }
            if (B == 8) {
                // all (n, d) pairs; vector forms: lane i carries divisor d+i (different divisors in different lanes); broadcast forms: every d
                const bool bc = op >= OP_BC_DIV;
                for (unsigned d0 = 0; d0 < 256; d0 += (bc ? 1 : W)) {
                    for (unsigned n0 = 0; n0 < 256; n0 += W) {
                        for (unsigned i = 0; i < W; ++i) { c.v[0][i] = (n0 + i * (bc ? 1 : 1)) & 0xFF; c.v[1][i] = bc ? d0 : ((d0 + i) & 0xFF); }
                        if (!bc && W > 1) for (unsigned r = 0; r < W; ++r) {   // rotate the numerators against the divisors: every (n, d) pair of the block
                            for (unsigned i = 0; i < W; ++i) c.v[0][i] = (n0 + ((i + r) % W)) & 0xFF;
                            emit(&c, ctx);
                        } else emit(&c, ctx);
                    }
                }
                continue;
            }
            std::vector<uint64_t> N;
#ifdef VP_PROP_C15
            if (op < OP_BC_DIV && W >= 4) {
                // divisor vectors with equalities between lanes: blocks of 2, 4, ... W/2 equal lanes ({a,a,b,b}), one uniform block next to
                // lanes that all differ from it, a repeating period - the shapes a "do all lanes share one divisor?" shortcut gets wrong
                const std::vector<uint64_t> S = vpl::int_lattice(B);
                for (unsigned bs = 2; bs < W; bs *= 2)
                    for (unsigned shape = 0; shape < 3; ++shape)
                        for (size_t j = 0; j < S.size(); j += (tier ? 3 : 11)) {
                            const uint64_t da = S[j] ? S[j] : 3, db = S[(j * 7 + 5) % S.size()] ? S[(j * 7 + 5) % S.size()] : 5;
                            numerators_for(B, sgn, da, seed + j, N);
                            std::vector<uint64_t> N2; numerators_for(B, sgn, db, seed + j + 1, N2);
                            for (size_t r = 0; r < 4; ++r) {
                                for (unsigned i = 0; i < W; ++i) {
                                    const bool first = shape == 0 ? ((i / bs) % 2 == 0) : shape == 1 ? (i < bs) : (i % bs == 0);
                                    c.v[1][i] = first ? da : (shape == 1 ? (db + i) | 1 : db);
                                    c.v[0][i] = first ? N[(r * 5 + i) % N.size()] : N2[(r * 3 + i) % N2.size()];
                                }
                                emit(&c, ctx);
                            }
                        }
            }
#endif
            size_t fill = 0; uint64_t rot = seed + op;
            const size_t dstep = (tier == 0 && op >= OP_QUOT && op != OP_BC_DIV) ? 3 : 1;
            for (size_t j = 0; j < D.size(); j += dstep) {
                if (D[j] == 0) continue;
                numerators_for(B, sgn, D[j], seed + j, N);
                for (size_t i = 0; i < N.size(); ++i) {
                    unsigned lane = (unsigned)((fill + rot) % W);
                    c.v[0][lane] = N[i]; c.v[1][lane] = D[j];
                    if (op >= OP_BC_DIV) { for (unsigned k = 0; k < W; ++k) { c.v[1][k] = D[j]; c.v[0][k] = N[(i + k) % N.size()]; } emit(&c, ctx); i += W - 1; continue; }
                    if (++fill == W) { emit(&c, ctx); fill = 0; ++rot; }
                }
            }
            if (fill) emit(&c, ctx);
        }
    }
}

template<class V> static void sweep16(unsigned t, unsigned op, uint32_t shard, uint32_t nshards, void (*emit)(const VpCase*, void*), void* ctx, uint64_t* evals, uint64_t* lanes) {
    const unsigned W = V::width;
    VpCase c; std::memset(&c, 0, sizeof c); c.target = t; c.op = op;
    { VpOutcome po; std::memset(&po, 0, sizeof po); c.v[1][0] = 3; run<V>(&c, &po); if (po.status == 2) return; }
    for (uint32_t d0 = 1 + shard; d0 < 65536; d0 += nshards)
        for (uint32_t n0 = 0; n0 < 65536; n0 += W) {
            for (unsigned i = 0; i < W; ++i) { c.v[0][i] = (n0 + i) & 0xFFFF; c.v[1][i] = (d0 + i * 251u) & 0xFFFF; }
            VpOutcome o; std::memset(&o, 0, sizeof o); o.bad_lane = -1;
            run<V>(&c, &o);
            ++*evals; *lanes += o.lanes_compared;
            if (o.status == 1) { emit(&c, ctx); return; }
        }
}
extern "C" void vp_sweep(int tier, uint64_t, uint32_t shard, uint32_t nshards, void (*emit)(const VpCase*, void*), void* ctx, uint64_t* evals, uint64_t* lanes, char* d, size_t cap) {
    if (tier < 1) { std::snprintf(d, cap, "all (n, d) pairs with d != 0 of both 8-bit element types for every form (deterministic phase)"); return; }
#define X(n) if (sizeof(avel::n::scalar) == 2) sweep16<avel::n>(T_##n, OP_DIV, shard, nshards, emit, ctx, evals, lanes);
    VP_INT_VECS(X)
#undef X
    std::snprintf(d, cap, "all (n, d) pairs with d != 0 of both 8-bit element types for every form;all 2^32 (n, d) pairs of both 16-bit element types for div()");
}
