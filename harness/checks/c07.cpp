// C07: selection, min/max/clamp, abs/negate, average and midpoint are exact per lane (ints and floats,
// vector forms and scalar overloads).
#define VP_CHECK_OBJECT
#include "../vp.hpp"
#include "../lattice.hpp"

using namespace vp;

enum { F_BLEND, F_KEEP, F_CLEAR, F_MIN, F_MAX, F_MINMAX, F_CLAMP, F_ABS, F_NEG_ABS, F_NEGATE, F_AVERAGE, F_MIDPOINT, F_COPYSIGN, F_COUNT };
enum { OP_SC0 = F_COUNT, OP_COUNT = 2 * F_COUNT };
// operands: v0 = a / x, v1 = b / lo, v2 = hi, v3 = mask lanes
static const VpOp OPS[] = {
    {"blend", {VK_INT, VK_INT_REL, VK_NONE, VK_BOOL}, {SK_SMALL}, 2}, {"keep", {VK_INT, VK_NONE, VK_NONE, VK_BOOL}, {SK_SMALL}, 2}, {"clear", {VK_INT, VK_NONE, VK_NONE, VK_BOOL}, {SK_SMALL}, 2},
    {"min", {VK_INT, VK_INT_REL}, {}, 2}, {"max", {VK_INT, VK_INT_REL}, {}, 2}, {"minmax", {VK_INT, VK_INT_REL}, {}, 1}, {"clamp", {VK_INT, VK_INT_REL, VK_INT_REL}, {}, 2},
    {"abs", {VK_INT}, {}, 1}, {"neg_abs", {VK_INT}, {}, 1}, {"negate", {VK_INT, VK_NONE, VK_NONE, VK_BOOL}, {SK_SMALL}, 2}, {"average", {VK_INT, VK_INT_REL}, {}, 3}, {"midpoint", {VK_INT, VK_INT_REL}, {}, 3},
    {"copysign", {VK_INT, VK_INT_REL}, {}, 1},
    {"scalar_blend", {VK_INT, VK_INT_REL, VK_NONE, VK_BOOL}, {}, 1}, {"scalar_keep", {VK_INT, VK_NONE, VK_NONE, VK_BOOL}, {}, 1}, {"scalar_clear", {VK_INT, VK_NONE, VK_NONE, VK_BOOL}, {}, 1},
    {"scalar_min", {VK_INT, VK_INT_REL}, {}, 1}, {"scalar_max", {VK_INT, VK_INT_REL}, {}, 1}, {"scalar_minmax", {VK_INT, VK_INT_REL}, {}, 1}, {"scalar_clamp", {VK_INT, VK_INT_REL, VK_INT_REL}, {}, 1},
    {"scalar_abs", {VK_INT}, {}, 1}, {"scalar_neg_abs", {VK_INT}, {}, 1}, {"scalar_negate", {VK_INT, VK_NONE, VK_NONE, VK_BOOL}, {}, 1}, {"scalar_average", {VK_INT, VK_INT_REL}, {}, 2}, {"scalar_midpoint", {VK_INT, VK_INT_REL}, {}, 2},
    {"scalar_copysign", {VK_INT, VK_INT_REL}, {}, 1},
};
enum { CL_ODD_SUM, CL_NEG_SUM, CL_A_GT_B, CL_MIN, CL_MIXED_MASK, CL_EQUAL, CL_OPP_SIGN, CL_FLT_ZERO, CL_FLT_NAN_INF, CL_ORDINARY };
static const char* const CLASSES[] = {"odd_sum", "negative_sum", "a_greater_than_b", "operand_is_MIN", "mixed_mask", "equal_operands", "opposite_sign_operands",
                                      "float_zero", "float_nan_or_inf", "ordinary"};

extern "C" const char* vp_property(void) { return "C07"; }
extern "C" const VpOp* vp_ops(uint32_t* n) { *n = OP_COUNT; return OPS; }
extern "C" const char* const* vp_class_names(uint32_t* n) { *n = 10; return CLASSES; }
extern "C" const char* vp_rule(void) {
    return "a case is operand vectors (+ mask) and one function; non-trivial = a lane with an odd or negative sum (average/midpoint rounding matters), "
           "a > b for midpoint, MIN for abs/negate, a mixed mask for blend/keep/clear/negate, equal or opposite-sign operands for min/max/clamp, "
           "or a float zero/NaN/infinity under a sign operation; distinct = distinct hash of the Case";
}
#define ALLCLS(c) true
VP_DEFINE_VECTOR_TARGETS(ALLCLS)

// ---------------- SFINAE: does avel::fn(args...) exist with return type R ----------------
#define DEF_HAS(fn) \
    template<class R, class... A> struct has_##fn { \
        template<class... U> static auto t(int) -> typename std::is_same<decltype(avel::fn(std::declval<U>()...)), R>::type; \
        template<class... U> static std::false_type t(...); \
        static const bool value = decltype(t<A...>(0))::value; }; \
    struct fn_##fn { template<class... A> auto operator()(const A&... a) const -> decltype(avel::fn(a...)) { return avel::fn(a...); } };
DEF_HAS(blend) DEF_HAS(keep) DEF_HAS(clear) DEF_HAS(min) DEF_HAS(max) DEF_HAS(minmax) DEF_HAS(clamp) DEF_HAS(abs) DEF_HAS(neg_abs) DEF_HAS(negate)
DEF_HAS(average) DEF_HAS(midpoint) DEF_HAS(copysign)
template<bool Has> struct Call;
template<> struct Call<false> { template<class F, class R, class... A> static bool go(F, R&, const A&...) { return false; } };
template<> struct Call<true> { template<class F, class R, class... A> static bool go(F f, R& r, const A&... a) { r = f(a...); return true; } };

// ---------------- oracles ----------------
template<class T> struct Fl {
    static const unsigned B = elem<T>::bits;
    static uint64_t absm() { return elem<T>::mask() >> 1; }
    static uint64_t sgn() { return uint64_t(1) << (B - 1); }
    static bool isnan(uint64_t x) { const unsigned mb = B == 32 ? 23 : 52; uint64_t e = (x & absm()) >> mb, mt = x & ((uint64_t(1) << mb) - 1); return e == ((uint64_t(1) << (B - 1 - mb)) - 1) && mt; }
    static bool isinf(uint64_t x) { const unsigned mb = B == 32 ? 23 : 52; return (x & absm()) == (((uint64_t(1) << (B - 1 - mb)) - 1) << mb); }
    static i128 key(uint64_t x) { i128 mag = (i128)(x & absm()); return (x & sgn()) ? -mag : mag; }
};

template<class T> static i128 ival(uint64_t b) { return elem<T>::is_signed ? (i128)elem<T>::sval(b) : (i128)(b & elem<T>::mask()); }

struct LaneIn { uint64_t a, b, c; bool m; };
// returns false if the lane is outside the documented domain (not compared). res2 for minmax.
template<class T, bool F = std::is_floating_point<T>::value> struct Ref;
template<class T> struct Ref<T, false> {
    static bool go(unsigned f, LaneIn& in, uint64_t& r, uint64_t& r2, bool& pred, VpOutcome* o) {
        const uint64_t m = elem<T>::mask(); const unsigned B = elem<T>::bits;
        pred = false;
        in.a &= m; in.b &= m; in.c &= m;
        i128 a = ival<T>(in.a), b = ival<T>(in.b), c = ival<T>(in.c);
        bool nt = false;
        auto cls = [&](unsigned k) { o->classes |= 1u << k; nt = true; };
        const uint64_t MINP = uint64_t(1) << (B - 1);
        switch (f) {
        case F_BLEND: r = in.m ? in.a : in.b; break;
        case F_KEEP: r = in.m ? in.a : 0; break;
        case F_CLEAR: r = in.m ? 0 : in.a; break;
        case F_MIN: r = (a < b ? in.a : in.b); if (a == b) cls(CL_EQUAL); if ((in.a ^ in.b) & MINP) cls(CL_OPP_SIGN); break;
        case F_MAX: r = (a < b ? in.b : in.a); if (a == b) cls(CL_EQUAL); if ((in.a ^ in.b) & MINP) cls(CL_OPP_SIGN); break;
        case F_MINMAX: r = (a < b ? in.a : in.b); r2 = (a < b ? in.b : in.a); if (a == b) cls(CL_EQUAL); if ((in.a ^ in.b) & MINP) cls(CL_OPP_SIGN); break;
        case F_CLAMP: {
            if (b == c) return false;               // documented: unspecified unless lo < hi
            if (b > c) { std::swap(in.b, in.c); std::swap(b, c); }
            r = a < b ? in.b : (a > c ? in.c : in.a);
            if (a == b || a == c) cls(CL_EQUAL); if ((in.b ^ in.c) & MINP) cls(CL_OPP_SIGN);
            break;
        }
        case F_ABS: r = (uint64_t)(a < 0 ? -a : a) & m; if (in.a == MINP) cls(CL_MIN); break;
        case F_NEG_ABS:
            // neg_abs of an unsigned vector returns the signed vector type and AVEL (code and unit tests) reinterprets the input as
            // signed; the property does not say which reading applies to inputs >= 2^(bits-1), so those lanes are not compared.
            if (!elem<T>::is_signed && (in.a & MINP) && in.a != MINP) return false;
            r = (uint64_t)(a < 0 ? a : -a) & m; if (in.a == MINP) cls(CL_MIN); break;
        case F_NEGATE: r = in.m ? ((uint64_t)(-a) & m) : in.a; if (in.a == MINP) cls(CL_MIN); break;
        case F_AVERAGE: { i128 s = a + b; r = (uint64_t)(s / 2) & m; if (s & 1) cls(CL_ODD_SUM); if (s < 0) cls(CL_NEG_SUM); break; }
        case F_MIDPOINT: {
            i128 d = b - a;   // a + (b-a)/2 rounded toward a == truncation of the half difference
            r = (uint64_t)(a + d / 2) & m;
            if ((a + b) & 1) cls(CL_ODD_SUM); if (a > b) cls(CL_A_GT_B); if (a + b < 0) cls(CL_NEG_SUM);
            break;
        }
        default: return false;
        }
        if (nt) o->nontrivial = 1;
        return true;
    }
};
template<class T> struct Ref<T, true> {
    static bool go(unsigned f, LaneIn& in, uint64_t& r, uint64_t& r2, bool& pred, VpOutcome* o) {
        const uint64_t m = elem<T>::mask();
        typedef Fl<T> L;
        pred = false;
        in.a &= m; in.b &= m; in.c &= m;
        bool nt = false;
        auto cls = [&](unsigned k) { o->classes |= 1u << k; nt = true; };
        auto special = [&](uint64_t x) { if ((x & L::absm()) == 0) cls(CL_FLT_ZERO); if (L::isnan(x) || L::isinf(x)) cls(CL_FLT_NAN_INF); };
        switch (f) {
        case F_BLEND: r = in.m ? in.a : in.b; special(in.a); special(in.b); break;
        case F_KEEP: r = in.m ? in.a : 0; special(in.a); break;
        case F_CLEAR: r = in.m ? 0 : in.a; special(in.a); break;
        case F_ABS: r = in.a & L::absm(); special(in.a); break;
        case F_NEG_ABS: r = in.a | L::sgn(); special(in.a); break;
        case F_NEGATE: r = in.m ? (in.a ^ L::sgn()) : in.a; special(in.a); break;
        case F_COPYSIGN: r = (in.a & L::absm()) | (in.b & L::sgn()); special(in.a); special(in.b); break;
        case F_MIN: case F_MAX: case F_MINMAX:
            if (L::isnan(in.a) || L::isnan(in.b)) return false;   // property: non-NaN inputs only
            pred = true;                                         // validity predicate, see check below
            if (L::key(in.a) == L::key(in.b)) cls(CL_EQUAL);
            if ((in.a ^ in.b) & L::sgn()) cls(CL_OPP_SIGN);
            r = (L::key(in.a) < L::key(in.b)) == (f != F_MAX) ? in.a : in.b;
            r2 = (L::key(in.a) < L::key(in.b)) ? in.b : in.a;
            break;
        case F_CLAMP:
            if (L::isnan(in.a) || L::isnan(in.b) || L::isnan(in.c)) return false;
            if (L::key(in.b) == L::key(in.c)) return false;
            if (L::key(in.b) > L::key(in.c)) std::swap(in.b, in.c);
            pred = true;
            r = L::key(in.a) < L::key(in.b) ? in.b : (L::key(in.a) > L::key(in.c) ? in.c : in.a);
            if (L::key(in.a) == L::key(in.b) || L::key(in.a) == L::key(in.c)) cls(CL_EQUAL);
            break;
        default: return false;
        }
        if (nt) o->nontrivial = 1;
        return true;
    }
};

// the scalar overloads take bool masks and scalars
template<class V, bool IsF = std::is_floating_point<typename V::scalar>::value> struct SV_of { typedef avel::Vector<typename std::make_signed<typename V::scalar>::type, V::width> type; };
template<class V> struct SV_of<V, true> { typedef V type; };

template<class V> static void run(const VpCase* c, VpOutcome* o) {
    typedef typename V::scalar T;
    typedef typename V::mask M;
    typedef typename SV_of<V>::type SV;   // neg_abs of an unsigned vector returns the signed vector
    typedef typename SV::scalar ST;
    const unsigned W = V::width;
    const bool scalar = c->op >= OP_SC0;
    const unsigned f = scalar ? c->op - OP_SC0 : c->op;
    if (scalar && W != 1) { o->status = 2; return; }
    const bool isf = std::is_floating_point<T>::value;
    LaneIn in[VP_MAXL]; uint64_t exp[VP_MAXL], exp2[VP_MAXL], got[VP_MAXL], got2[VP_MAXL]; uint8_t cmp[VP_MAXL]; bool pred[VP_MAXL];
    uint64_t al[VP_MAXL], bl[VP_MAXL], cl[VP_MAXL], ml[VP_MAXL];
    unsigned nset = 0;
    for (unsigned i = 0; i < W; ++i) {
        in[i].a = c->v[0][i]; in[i].b = c->v[1][i]; in[i].c = c->v[2][i]; in[i].m = c->v[3][i] & 1; nset += in[i].m;
        exp2[i] = 0; got2[i] = 0;
        uint64_t r = 0, r2 = 0; bool p = false;
        cmp[i] = Ref<T>::go(f, in[i], r, r2, p, o);
        exp[i] = r; exp2[i] = r2; pred[i] = p;
        al[i] = in[i].a; bl[i] = in[i].b; cl[i] = in[i].c; ml[i] = in[i].m;   // Ref may have ordered lo/hi
    }
    if ((f == F_BLEND || f == F_KEEP || f == F_CLEAR || f == F_NEGATE) && nset != 0 && nset != W) { o->classes |= 1u << CL_MIXED_MASK; o->nontrivial = 1; }
    if (!o->nontrivial) o->classes |= 1u << CL_ORDINARY;
    bool have = false, two = false;
    poison_below(c->v[0][0] ^ c->v[3][0] ^ c->op);
    if (!scalar) {
        V a = mk<V>(al), b = mk<V>(bl), cc = mk<V>(cl);
        // the mask reaches the operation through one of several producers (s0): primitive, comparison, std::array<bool>, insert<I> chains, Mask(vector)
        M m = mask_via<V>((unsigned)(c->s[0] < 0 ? -c->s[0] : c->s[0]), ml);
        V r{}; SV rs{}; std::array<V, 2> rr{};
        switch (f) {
        case F_BLEND: have = Call<has_blend<V, M, V, V>::value>::go(fn_blend(), r, m, a, b); break;
        case F_KEEP: have = Call<has_keep<V, M, V>::value>::go(fn_keep(), r, m, a); break;
        case F_CLEAR: have = Call<has_clear<V, M, V>::value>::go(fn_clear(), r, m, a); break;
        case F_MIN: have = Call<has_min<V, V, V>::value>::go(fn_min(), r, a, b); break;
        case F_MAX: have = Call<has_max<V, V, V>::value>::go(fn_max(), r, a, b); break;
        case F_MINMAX: have = Call<has_minmax<std::array<V, 2>, V, V>::value>::go(fn_minmax(), rr, a, b); two = true; break;
        case F_CLAMP: have = Call<has_clamp<V, V, V, V>::value>::go(fn_clamp(), r, a, b, cc); break;
        case F_ABS: have = Call<has_abs<V, V>::value>::go(fn_abs(), r, a); break;
        case F_NEG_ABS: have = Call<has_neg_abs<SV, V>::value>::go(fn_neg_abs(), rs, a); break;
        case F_NEGATE: have = Call<has_negate<V, M, V>::value>::go(fn_negate(), r, m, a); break;
        case F_AVERAGE: have = Call<has_average<V, V, V>::value>::go(fn_average(), r, a, b); break;
        case F_MIDPOINT: have = Call<has_midpoint<V, V, V>::value>::go(fn_midpoint(), r, a, b); break;
        default: have = Call<has_copysign<V, V, V>::value>::go(fn_copysign(), r, a, b); break;
        }
        if (f == F_NEG_ABS) rd<SV>(rs, got); else if (two) { rd<V>(rr[0], got); rd<V>(rr[1], got2); } else rd<V>(r, got);
    } else {
        T a = elem<T>::from_bits(al[0]), b = elem<T>::from_bits(bl[0]), cc = elem<T>::from_bits(cl[0]); bool m = ml[0];
        T r{}; ST rs{}; std::array<T, 2> rr{};
        switch (f) {
        case F_BLEND: have = Call<has_blend<T, bool, T, T>::value>::go(fn_blend(), r, m, a, b); break;
        case F_KEEP: have = Call<has_keep<T, bool, T>::value>::go(fn_keep(), r, m, a); break;
        case F_CLEAR: have = Call<has_clear<T, bool, T>::value>::go(fn_clear(), r, m, a); break;
        case F_MIN: have = Call<has_min<T, T, T>::value>::go(fn_min(), r, a, b); break;
        case F_MAX: have = Call<has_max<T, T, T>::value>::go(fn_max(), r, a, b); break;
        case F_MINMAX: have = Call<has_minmax<std::array<T, 2>, T, T>::value>::go(fn_minmax(), rr, a, b); two = true; break;
        case F_CLAMP: have = Call<has_clamp<T, T, T, T>::value>::go(fn_clamp(), r, a, b, cc); break;
        case F_ABS: have = Call<has_abs<T, T>::value>::go(fn_abs(), r, a); break;
        case F_NEG_ABS: have = Call<has_neg_abs<ST, T>::value>::go(fn_neg_abs(), rs, a); break;
        case F_NEGATE: have = Call<has_negate<T, bool, T>::value>::go(fn_negate(), r, m, a); break;
        case F_AVERAGE: have = Call<has_average<T, T, T>::value>::go(fn_average(), r, a, b); break;
        case F_MIDPOINT: have = Call<has_midpoint<T, T, T>::value>::go(fn_midpoint(), r, a, b); break;
        default: have = Call<has_copysign<T, T, T>::value>::go(fn_copysign(), r, a, b); break;
        }
        if (f == F_NEG_ABS) got[0] = elem<ST>::to_bits(rs); else if (two) { got[0] = elem<T>::to_bits(rr[0]); got2[0] = elem<T>::to_bits(rr[1]); } else got[0] = elem<T>::to_bits(r);
    }
    if (!have) { o->status = 2; return; }
    // integer midpoint/average on floats etc. never reach here (Ref returns false -> lane not compared, but op is n/a when no lane is comparable by type)
    if (isf && (f == F_AVERAGE || f == F_MIDPOINT)) { o->status = 2; return; }
    if (!isf && f == F_COPYSIGN) { o->status = 2; return; }
    // float min/max/clamp: validity predicate (either zero of a +-0 pair is acceptable): bit-equal to one operand and numerically equal to the reference
    for (unsigned i = 0; i < W; ++i) {
        if (!cmp[i] || !pred[i]) continue;
        typedef Fl<typename std::conditional<std::is_floating_point<T>::value, T, float>::type> L;
        auto okv = [&](uint64_t g, uint64_t e) {
            bool from_operand = (g == al[i] || g == bl[i] || (f == F_CLAMP && g == cl[i]));
            return from_operand && L::key(g) == L::key(e) && !L::isnan(g);
        };
        if (okv(got[i], exp[i])) exp[i] = got[i];
        if (two && okv(got2[i], exp2[i])) exp2[i] = got2[i];
    }
    char tag[96];
    std::snprintf(tag, sizeof tag, "value%s", isf ? ":float" : "");
    if (!cmp_lanes(o, W, exp, got, cmp, tag, OPS[c->op].name)) return;
    if (two) cmp_lanes(o, W, exp2, got2, cmp, "value:minmax_second", "minmax()[1]");
    for (unsigned i = 0; i < W; ++i) { o->expect[i] = exp[i]; o->actual[i] = got[i]; }
}

extern "C" void vp_run(const VpCase* c, VpOutcome* o) {
    switch (c->target) {
#define X(n) case T_##n: run<avel::n>(c, o); return;
        VP_ALL_VECS(X)
#undef X
    default: o->status = 2; return;
    }
}

extern "C" void vp_enum(int tier, uint64_t seed, uint32_t shard, uint32_t nshards, void (*emit)(const VpCase*, void*), void* ctx) {
    uint32_t nt; const VpTarget* T = vp_targets(&nt);
    uint64_t job = 0;
    for (uint32_t t = 0; t < nt; ++t) {
        if (!T[t].present) continue;
        const unsigned W = T[t].width, B = T[t].bits;
        const bool isf = T[t].cls == 2;
        std::vector<uint64_t> L = isf ? vpl::flt_lattice_small(B) : vpl::int_lattice_small(B);
        if (!isf && B == 8) { L.clear(); for (unsigned x = 0; x < 256; ++x) L.push_back(x); }
        const size_t n = L.size();
        for (unsigned op = 0; op < OP_COUNT; ++op) {
            if ((job++ % nshards) != shard) continue;
            const unsigned f = op % F_COUNT;
            if (op >= OP_SC0 && W != 1) continue;
            if (isf && (f == F_AVERAGE || f == F_MIDPOINT)) continue;
            if (!isf && f == F_COPYSIGN) continue;
            VpCase c; std::memset(&c, 0, sizeof c); c.target = t; c.op = op;
            const bool unary = (f == F_KEEP || f == F_CLEAR || f == F_ABS || f == F_NEG_ABS || f == F_NEGATE);
            const bool masked = (f == F_BLEND || f == F_KEEP || f == F_CLEAR || f == F_NEGATE);
            size_t fill = 0; uint64_t rot = seed + op, cnt = 0;
            const size_t step = (f == F_CLAMP && n > 100) ? 5 : 1;
            for (size_t i = 0; i < n; ++i)
                for (size_t j = 0; j < (unary ? 1 : n); j += step) {
                    unsigned lane = (unsigned)((fill + rot) % W);
                    c.v[0][lane] = L[i]; c.v[1][lane] = L[j]; c.v[2][lane] = L[(i * 31 + j * 17 + 7) % n];
                    // masks: rotate through all-set, all-clear, alternating and pseudo-random lane patterns
                    uint64_t pat = cnt % 4 == 0 ? ~0ull : cnt % 4 == 1 ? 0 : cnt % 4 == 2 ? 0x5555555555555555ull : (cnt * 0x9E3779B97F4A7C15ull);
                    c.v[3][lane] = masked ? ((pat >> (lane % 64)) & 1) : 0;
                    if (++fill == W) { c.s[0] = masked ? (int64_t)(cnt % VP_MASK_PRODUCERS) : 0; emit(&c, ctx); fill = 0; ++rot; ++cnt; }
                }
            if (fill) emit(&c, ctx);
            // all mask patterns for narrow vectors on a fixed heterogeneous payload, through every mask producer
            if (masked && W <= 16 && W > 1) {
                for (unsigned lane = 0; lane < W; ++lane) { c.v[0][lane] = L[(lane * 37 + 5) % n] | (uint64_t(0x81) << (B - 8)) | 0x81; c.v[1][lane] = L[(lane * 11 + 3) % n]; }
                for (unsigned prod = 0; prod < VP_MASK_PRODUCERS; ++prod)
                    for (uint64_t pat = 0; pat < (uint64_t(1) << W); pat += (W == 16 && prod ? 7 : 1)) { for (unsigned lane = 0; lane < W; ++lane) c.v[3][lane] = (pat >> lane) & 1; c.s[0] = prod; emit(&c, ctx); }
            }
            else if (masked && W > 16) {
                for (unsigned lane = 0; lane < W; ++lane) { c.v[0][lane] = L[(lane * 37 + 5) % n] | (uint64_t(0x81) << (B - 8)) | 0x81; c.v[1][lane] = L[(lane * 11 + 3) % n]; }
                for (unsigned prod = 0; prod < VP_MASK_PRODUCERS; ++prod)
                    for (unsigned k = 0; k < 3 * W; ++k) { for (unsigned lane = 0; lane < W; ++lane) c.v[3][lane] = k < W ? (lane == k) : k < 2 * W ? (lane != k - W) : (((k * 0x9E3779B97F4A7C15ull) >> (lane % 64)) & 1); c.s[0] = prod; emit(&c, ctx); }
            }
        }
    }
}

template<class V> static void sweep16(unsigned t, unsigned op, uint32_t shard, uint32_t nshards, void (*emit)(const VpCase*, void*), void* ctx, uint64_t* evals, uint64_t* lanes) {
    const unsigned W = V::width;
    VpCase c; std::memset(&c, 0, sizeof c); c.target = t; c.op = op;
    { VpOutcome po; std::memset(&po, 0, sizeof po); run<V>(&c, &po); if (po.status == 2) return; }
    for (uint32_t a = shard; a < 65536; a += nshards)
        for (uint32_t b0 = 0; b0 < 65536; b0 += W) {
            for (unsigned i = 0; i < W; ++i) { c.v[0][i] = (a + i * 257u) & 0xFFFF; c.v[1][i] = (b0 + i) & 0xFFFF; c.v[2][i] = (a * 31 + b0 + i * 7) & 0xFFFF; c.v[3][i] = (a >> (i % 16)) & 1; }
            VpOutcome o; std::memset(&o, 0, sizeof o); o.bad_lane = -1;
            run<V>(&c, &o);
            ++*evals; *lanes += o.lanes_compared;
            if (o.status == 1) { emit(&c, ctx); return; }
        }
}

extern "C" void vp_sweep(int tier, uint64_t, uint32_t shard, uint32_t nshards, void (*emit)(const VpCase*, void*), void* ctx, uint64_t* evals, uint64_t* lanes, char* d, size_t cap) {
    if (tier < 1) { std::snprintf(d, cap, "all 65536 operand pairs of both 8-bit element types for every function; all 2^W mask patterns for W<=16 (deterministic phase)"); return; }
    for (unsigned op : {F_MIN, F_MAX, F_AVERAGE, F_MIDPOINT, F_BLEND, F_CLAMP}) {
#define X(n) if (sizeof(avel::n::scalar) == 2) sweep16<avel::n>(T_##n, op, shard, nshards, emit, ctx, evals, lanes);
        VP_INT_VECS(X)
#undef X
    }
    std::snprintf(d, cap, "all 65536 operand pairs of both 8-bit element types for every function; all 2^W mask patterns for W<=16;all 2^32 operand pairs of both 16-bit element types for min/max/average/midpoint/blend/clamp in every width");
}
