// C17: conversions between vector/mask types preserve every lane.
#define VP_CHECK_OBJECT
#include "../vp.hpp"
#include "../lattice.hpp"
#include "c17_table.hpp"

using namespace vp;

enum { OP_CONVERT_VEC, OP_CTOR_VEC, OP_CONVERT_MASK, OP_CTOR_MASK, OP_ROUNDTRIP_VEC, OP_IDENTITY, OP_BITCAST_VEC, OP_BITCAST_MASK, OP_BITCAST_SCALAR, OP_BITCAST_ANY, OP_COUNT };
// v0 lanes / mask bits; s0 = destination type index (target table order)
static const VpOp OPS[] = {
    {"convert_vector", {VK_INT}, {SK_RAW}, 3}, {"converting_constructor_vector", {VK_INT}, {SK_RAW}, 2}, {"convert_mask", {VK_BOOL}, {SK_RAW}, 2}, {"converting_constructor_mask", {VK_BOOL}, {SK_RAW}, 1},
    {"convert_round_trip", {VK_INT}, {SK_RAW}, 1}, {"convert_identity", {VK_INT, VK_BOOL}, {}, 1}, {"bit_cast_vector", {VK_INT}, {SK_RAW}, 1}, {"bit_cast_mask", {VK_BOOL}, {SK_RAW}, 1}, {"bit_cast_scalar", {VK_INT}, {}, 1},
    // any two vector / mask types of identical representation (s0 = destination type, s1 bit 0: the source is the mask type, bit 1: the destination is the mask type)
    {"bit_cast_any_pair", {VK_INT, VK_BOOL}, {SK_RAW, SK_SMALL}, 2},
};
enum { CL_TOP_BIT, CL_NARROWING_TRUNCATES, CL_MIXED_MASK, CL_WIDENING_NEGATIVE, CL_ORDINARY };
static const char* const CLASSES[] = {"lane_with_top_bit_set", "narrowing_conversion_truncates", "mixed_mask", "widening_of_negative_value", "ordinary"};
extern "C" const char* vp_property(void) { return "C17"; }
extern "C" const VpOp* vp_ops(uint32_t* n) { *n = OP_COUNT; return OPS; }
extern "C" const char* const* vp_class_names(uint32_t* n) { *n = 5; return CLASSES; }
extern "C" const char* vp_rule(void) {
    return "a case is a source vector or mask, a destination type from the fixed table of the 108 conversions the pinned tree provides (plus identity and bit_cast pairs, and bit_cast between every two vector / mask types with the same primitive type) and a form (convert<>, "
           "converting constructor, round trip, bit_cast); non-trivial = a lane with the top bit set, a narrowing width-1 conversion that truncates, a widening of a negative value, or a mask with mixed lanes; "
           "distinct = distinct hash of the Case";
}
#define ALLCLS(c) true
VP_DEFINE_VECTOR_TARGETS(ALLCLS)

template<class D, class S> static void conv_vec(const VpCase* c, VpOutcome* o, bool ctor, bool roundtrip) {
    typedef typename S::scalar ST; typedef typename D::scalar DT;
    static_assert(S::width == D::width, "table holds same-width pairs only");
    const unsigned W = S::width;
    uint64_t in[VP_MAXL], exp[VP_MAXL], got[VP_MAXL];
    bool nt = false;
    for (unsigned i = 0; i < W; ++i) {
        in[i] = c->v[0][i] & elem<ST>::mask();
        ST sv = elem<ST>::from_bits(in[i]);
        DT dv = static_cast<DT>(sv);                         // the oracle: static_cast per lane
        exp[i] = elem<DT>::to_bits(dv);
        if ((in[i] >> (elem<ST>::bits - 1)) & 1) { o->classes |= 1u << CL_TOP_BIT; nt = true; }
        if (sizeof(DT) < sizeof(ST) && (in[i] >> elem<DT>::bits)) { o->classes |= 1u << CL_NARROWING_TRUNCATES; nt = true; }
        if (sizeof(DT) > sizeof(ST) && elem<ST>::is_signed && ((in[i] >> (elem<ST>::bits - 1)) & 1)) { o->classes |= 1u << CL_WIDENING_NEGATIVE; nt = true; }
    }
    if (nt) o->nontrivial = 1; else o->classes |= 1u << CL_ORDINARY;
    S s = mk<S>(in);
    D d = ctor ? D(s) : avel::convert<D>(s)[0];
    rd<D>(d, got);
    if (!cmp_lanes(o, W, exp, got, nullptr, ctor ? "converting_constructor" : "convert", ctor ? "Vector<T,N>(Vector<U,N>)" : "convert<V0>(v)")) return;
    if (!ctor) {   // constructor == convert()[0]
        D d2(s); uint64_t g2[VP_MAXL]; rd<D>(d2, g2);
        if (!cmp_lanes(o, W, got, g2, nullptr, "constructor_differs_from_convert", "converting constructor vs convert")) return;
    }
    (void)roundtrip;
}
template<class D, class S> static void conv_mask(const VpCase* c, VpOutcome* o, bool ctor) {
    typedef typename S::mask SM; typedef typename D::mask DM;
    const unsigned W = S::width;
    uint64_t in[VP_MAXL], got[VP_MAXL], ext[VP_MAXL]; unsigned pop = 0;
    for (unsigned i = 0; i < W; ++i) { in[i] = c->v[0][i] & 1; pop += (unsigned)in[i]; }
    if (pop && pop != W) { o->classes |= 1u << CL_MIXED_MASK; o->nontrivial = 1; } else o->classes |= 1u << CL_ORDINARY;
    SM s = mkmask<SM>(in);
    DM d = ctor ? DM(s) : avel::convert<DM>(s)[0];
    unsigned nonc = 0; rdmask<DM>(d, got, &nonc); extract_all<DM>(d, ext);
    if (!cmp_lanes(o, W, in, got, nullptr, ctor ? "mask_converting_constructor" : "mask_convert", "mask conversion (primitive decode)")) return;
    if (!cmp_lanes(o, W, in, ext, nullptr, "mask_convert:extract", "mask conversion (extract<I>)")) return;
    if (avel::count(d) != pop) { fail(o, -1, "mask_convert:count", "count(converted mask)=%u, source has %u", (unsigned)avel::count(d), pop); return; }
    if (nonc) fail(o, -1, "mask_convert:noncanonical", "converted mask has a non-canonical representation (%u stray bits/lanes)", nonc);
}
template<class A, class B> static void bitcast_vec(const VpCase* c, VpOutcome* o) {
    // bit_cast between vector types of identical size: all bytes preserved, both directions
    const unsigned W = B::width;
    uint64_t in[VP_MAXL];
    for (unsigned i = 0; i < W; ++i) { in[i] = c->v[0][i] & elem<typename B::scalar>::mask(); if ((in[i] >> (elem<typename B::scalar>::bits - 1)) & 1) { o->classes |= 1u << CL_TOP_BIT; o->nontrivial = 1; } }
    if (!o->nontrivial) o->classes |= 1u << CL_ORDINARY;
    B b = mk<B>(in);
    A a = avel::bit_cast<A>(b);
    unsigned char x[sizeof(A)], y[sizeof(B)]; std::memcpy(x, &a, sizeof(A)); std::memcpy(y, &b, sizeof(B));
    ++o->lanes_compared;
    if (std::memcmp(x, y, sizeof(A)) != 0) { fail(o, -1, "bit_cast", "bit_cast changed bytes"); return; }
    B back = avel::bit_cast<B>(a);
    std::memcpy(x, &back, sizeof(B));
    if (std::memcmp(x, y, sizeof(B)) != 0) fail(o, -1, "bit_cast:round_trip", "bit_cast round trip changed bytes");
}
template<class A, class B, bool Same = std::is_same<typename A::mask::primitive, typename B::mask::primitive>::value && sizeof(typename A::mask) == sizeof(typename B::mask)> struct BitcastMask {
    static void go(const VpCase* c, VpOutcome* o) {
        typedef typename A::mask AM; typedef typename B::mask BM;
        const unsigned W = B::width; uint64_t in[VP_MAXL], got[VP_MAXL]; unsigned pop = 0;
        for (unsigned i = 0; i < W; ++i) { in[i] = c->v[0][i] & 1; pop += (unsigned)in[i]; }
        if (pop && pop != W) { o->classes |= 1u << CL_MIXED_MASK; o->nontrivial = 1; } else o->classes |= 1u << CL_ORDINARY;
        BM b = mkmask<BM>(in); AM a = avel::bit_cast<AM>(b);
        rdmask<AM>(a, got);
        cmp_lanes(o, W, in, got, nullptr, "bit_cast_mask", "bit_cast between masks of identical representation");
    }
};
template<class A, class B> struct BitcastMask<A, B, false> { static void go(const VpCase*, VpOutcome* o) { o->status = 2; } };

// bit_cast between any two vector / mask types of identical representation (the same primitive type, the same object size): the bytes of the
// primitive are preserved, both directions. (Only those bytes: mask32x8i is alignas(32) around a 4-byte k-mask, the rest is padding.)
template<class A, class B, bool Same = sizeof(A) == sizeof(B) && std::is_same<typename A::primitive, typename B::primitive>::value> struct AnyCast {
    static void go(const B& b, VpOutcome* o) {
        A a = avel::bit_cast<A>(b);
        const size_t VB = sizeof(typename A::primitive);
        unsigned char x[sizeof(A)], y[sizeof(B)]; std::memcpy(x, &a, sizeof(A)); std::memcpy(y, &b, sizeof(B));
        ++o->lanes_compared;
        if (std::memcmp(x, y, VB) != 0) { fail(o, -1, "bit_cast_any", "bit_cast changed the bytes of the object (first bytes %02x%02x.. -> %02x%02x..)", y[0], sizeof(B) > 1 ? y[1] : 0, x[0], sizeof(A) > 1 ? x[1] : 0); return; }
        B back = avel::bit_cast<B>(a);
        std::memcpy(x, &back, sizeof(B));
        if (std::memcmp(x, y, VB) != 0) fail(o, -1, "bit_cast_any:round_trip", "bit_cast round trip changed bytes");
    }
};
template<class A, class B> struct AnyCast<A, B, false> { static void go(const B&, VpOutcome* o) { o->status = 2; } };
template<class S> static void anycast_from(const S& src, unsigned dst, bool dmask, VpOutcome* o) {
    switch (dst) {
#define X(n) case T_##n: if (dmask) AnyCast<avel::n::mask, S>::go(src, o); else AnyCast<avel::n, S>::go(src, o); return;
        VP_ALL_VECS(X)
#undef X
    default: o->status = 2; return;
    }
}

// ---- dispatch over the fixed table ----
static bool dispatch_table(const VpCase* c, VpOutcome* o, unsigned dst) {
    const unsigned op = c->op;
#define XV(D, S) if (c->target == T_##S && dst == T_##D) { if (op == OP_CONVERT_VEC || op == OP_ROUNDTRIP_VEC) conv_vec<avel::D, avel::S>(c, o, false, op == OP_ROUNDTRIP_VEC); else conv_vec<avel::D, avel::S>(c, o, true, false); return true; }
#define XM(D, S) if (c->target == T_##S && dst == T_##D) { conv_mask<avel::D, avel::S>(c, o, op == OP_CTOR_MASK); return true; }
    if (op == OP_CONVERT_VEC || op == OP_CTOR_VEC || op == OP_ROUNDTRIP_VEC) { C17_VEC_TABLE(XV) }
    if (op == OP_CONVERT_MASK || op == OP_CTOR_MASK) { C17_MASK_TABLE(XM) }
#undef XV
#undef XM
    return false;
}

template<class V, bool IsF = std::is_floating_point<typename V::scalar>::value> struct Counterpart {   // signed <-> unsigned of the same size and width
    typedef typename V::scalar T;
    typedef avel::Vector<typename std::conditional<std::is_signed<T>::value, typename std::make_unsigned<T>::type, typename std::make_signed<T>::type>::type, V::width> type;
};
template<class V> struct Counterpart<V, true> {   // float <-> unsigned integer of the same size (bit_cast only)
    typedef avel::Vector<typename std::conditional<sizeof(typename V::scalar) == 4, std::uint32_t, std::uint64_t>::type, V::width> type;
};

template<class V> static void run(const VpCase* c, VpOutcome* o) {
    typedef typename V::scalar T; typedef typename V::mask M;
    const unsigned W = V::width;
    const unsigned op = c->op;
    const unsigned dst = (unsigned)((uint64_t)c->s[0] % T_COUNT);
    typedef typename Counterpart<V>::type CV;
    switch (op) {
    case OP_IDENTITY: {
        uint64_t in[VP_MAXL], got[VP_MAXL], mb[VP_MAXL], gm[VP_MAXL];
        for (unsigned i = 0; i < W; ++i) { in[i] = c->v[0][i] & elem<T>::mask(); mb[i] = c->v[1][i] & 1; if ((in[i] >> (elem<T>::bits - 1)) & 1) { o->classes |= 1u << CL_TOP_BIT; o->nontrivial = 1; } }
        if (!o->nontrivial) o->classes |= 1u << CL_ORDINARY;
        V v = mk<V>(in); rd<V>(avel::convert<V>(v)[0], got);
        if (!cmp_lanes(o, W, in, got, nullptr, "identity_convert", "convert<V>(V)")) return;
        M m = mkmask<M>(mb); rdmask<M>(avel::convert<M>(m)[0], gm);
        cmp_lanes(o, W, mb, gm, nullptr, "identity_convert_mask", "convert<M>(M)");
        return;
    }
    case OP_BITCAST_VEC: bitcast_vec<CV, V>(c, o); return;
    case OP_BITCAST_MASK: BitcastMask<CV, V>::go(c, o); return;
    case OP_BITCAST_ANY: {
        const unsigned kind = (unsigned)((c->s[1] < 0 ? -c->s[1] : c->s[1]) % 4);
        uint64_t in[VP_MAXL], mb[VP_MAXL]; unsigned pop = 0;
        for (unsigned i = 0; i < W; ++i) { in[i] = c->v[0][i] & elem<T>::mask(); mb[i] = c->v[1][i] & 1; pop += (unsigned)mb[i]; }
        if (kind & 1) { if (pop && pop != W) { o->classes |= 1u << CL_MIXED_MASK; o->nontrivial = 1; } M m = mkmask<M>(mb); anycast_from<M>(m, dst, (kind & 2) != 0, o); }
        else { for (unsigned i = 0; i < W; ++i) if ((in[i] >> (elem<T>::bits - 1)) & 1) { o->classes |= 1u << CL_TOP_BIT; o->nontrivial = 1; } V v = mk<V>(in); anycast_from<V>(v, dst, (kind & 2) != 0, o); }
        if (!o->nontrivial) o->classes |= 1u << CL_ORDINARY;
        return;
    }
    case OP_BITCAST_SCALAR: {
        if (W != 1) { o->status = 2; return; }
        typedef typename CV::scalar CT;
        uint64_t in = c->v[0][0] & elem<T>::mask();
        T x = elem<T>::from_bits(in); CT y = avel::bit_cast<CT>(x); T z = avel::bit_cast<T>(y);
        uint64_t g1 = elem<CT>::to_bits(y), g2 = elem<T>::to_bits(z);
        if ((in >> (elem<T>::bits - 1)) & 1) { o->classes |= 1u << CL_TOP_BIT; o->nontrivial = 1; } else o->classes |= 1u << CL_ORDINARY;
        if (!cmp_lanes(o, 1, &in, &g1, nullptr, "bit_cast_scalar", "avel::bit_cast<T>(u)")) return;
        cmp_lanes(o, 1, &in, &g2, nullptr, "bit_cast_scalar:round_trip", "bit_cast round trip");
        return;
    }
    default:
        if (!dispatch_table(c, o, dst)) { o->status = 2; return; }
        if (op == OP_ROUNDTRIP_VEC && o->status == 0) {
            // round trip back is the identity where the reverse conversion is provided and is not narrowing
            VpCase back = *c; VpOutcome bo; std::memset(&bo, 0, sizeof bo);
            // run the reverse (dst -> src) on the converted lanes: reuse expect[] (static_cast result)
            for (unsigned i = 0; i < W; ++i) back.v[0][i] = o->actual[i];
            back.target = dst; back.s[0] = c->target; back.op = OP_CONVERT_VEC;
            extern void vp_run_inner(const VpCase*, VpOutcome*);
            vp_run_inner(&back, &bo);
            if (bo.status == 1) { *o = bo; std::snprintf(o->tag, sizeof o->tag, "round_trip:reverse_conversion"); }
        }
        return;
    }
}

void vp_run_inner(const VpCase* c, VpOutcome* o) {
    switch (c->target) {
#define X(n) case T_##n: run<avel::n>(c, o); return;
        VP_ALL_VECS(X)
#undef X
    default: o->status = 2; return;
    }
}
extern "C" void vp_run(const VpCase* c, VpOutcome* o) { vp_run_inner(c, o); }

extern "C" void vp_enum(int tier, uint64_t seed, uint32_t shard, uint32_t nshards, void (*emit)(const VpCase*, void*), void* ctx) {
    uint32_t nt; const VpTarget* T = vp_targets(&nt);
    uint64_t job = 0;
    for (uint32_t t = 0; t < nt; ++t) {
        if (!T[t].present) continue;
        const unsigned W = T[t].width, B = T[t].bits; const bool isf = T[t].cls == 2;
        std::vector<uint64_t> L = isf ? vpl::flt_lattice_small(B) : vpl::int_lattice(B);
        if (!isf && B == 8) { L.clear(); for (unsigned x = 0; x < 256; ++x) L.push_back(x); }
        if (!isf && B == 16) { L.clear(); for (unsigned x = 0; x < 65536; ++x) L.push_back(x); }
        for (unsigned op = 0; op < OP_COUNT; ++op)
            for (unsigned dst = 0; dst < ((op <= OP_ROUNDTRIP_VEC || op == OP_BITCAST_ANY) ? (unsigned)T_COUNT : 1u); ++dst)
              for (unsigned kind = 0; kind < (op == OP_BITCAST_ANY ? 4u : 1u); ++kind) {
                if ((job++ % nshards) != shard) continue;
                VpCase c; std::memset(&c, 0, sizeof c); c.target = t; c.op = op; c.s[0] = dst; c.s[1] = kind;
                { VpOutcome po; std::memset(&po, 0, sizeof po); po.bad_lane = -1; vp_run(&c, &po); if (po.status == 2) continue; }
                if (op == OP_BITCAST_ANY) {
                    // one-hot, all-but-one, prefix and mixed patterns for lanes and mask bits alike
                    for (unsigned k = 0; k < 3 * W + 24; ++k) {
                        for (unsigned i = 0; i < W; ++i) {
                            const bool bit = k < W ? (i == k) : k < 2 * W ? (i != k - W) : k < 3 * W ? (i <= k - 2 * W) : (((k * 0x9E3779B97F4A7C15ull + seed) >> (i % 64)) & 1);
                            c.v[1][i] = bit; c.v[0][i] = bit ? L[(k * 7 + i) % L.size()] | (1ull << (B - 1)) : L[(k + i) % L.size()];
                        }
                        emit(&c, ctx);
                    }
                    continue;
                }
                const bool maskop = (op == OP_CONVERT_MASK || op == OP_CTOR_MASK || op == OP_BITCAST_MASK);
                if (maskop) {
                    if (W <= 16) for (uint64_t p = 0; p < (1ull << W); ++p) { for (unsigned i = 0; i < W; ++i) c.v[0][i] = (p >> i) & 1; emit(&c, ctx); }
                    else for (unsigned k = 0; k < 400; ++k) { uint64_t p = k < W ? (1ull << k) : k < 2 * W ? ~(1ull << (k - W)) : k < 3 * W ? ((1ull << (k - 2 * W)) - 1) : (k * 0x9E3779B97F4A7C15ull + seed); for (unsigned i = 0; i < W; ++i) c.v[0][i] = (p >> (i % 64)) & 1; emit(&c, ctx); }
                    continue;
                }
                size_t fill = 0; uint64_t rot = seed + op + dst, cnt = 0;
                for (size_t i = 0; i < L.size(); ++i) { unsigned lane = (unsigned)((fill + rot) % W); c.v[0][lane] = L[i]; c.v[1][lane] = (cnt + lane) & 1; if (++fill == W) { emit(&c, ctx); fill = 0; ++rot; ++cnt; } }
                if (fill) emit(&c, ctx);
            }
    }
}
extern "C" void vp_sweep(int, uint64_t, uint32_t, uint32_t, void (*)(const VpCase*, void*), void*, uint64_t*, uint64_t*, char* d, size_t cap) {
    std::snprintf(d, cap, "every 8-bit and 16-bit lane value and every mask pattern for N<=16, for every (source, destination) pair of the fixed table of 108 provided conversions, the identities and the bit_cast pairs");
}
