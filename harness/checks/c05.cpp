// C05: integer division and remainder are exact truncating division per lane; zero divisors in other
// lanes neither trap nor disturb.
#define VP_CHECK_OBJECT
#include "../vp.hpp"
#include "../lattice.hpp"

using namespace vp;

enum { OP_DIV, OP_QUOT, OP_REM, OP_QUOT_A, OP_REM_A, OP_SELF_Q, OP_SELF_R, OP_CHAIN_QQ, OP_CHAIN_QR, OP_COUNT };
// v0 dividend, v1 divisor; s0 = bit set of lanes that get a zero divisor (wide vectors), s1 = lanes that get MIN/-1
static const VpOp OPS[] = {
    {"div", {VK_INT, VK_INT_REL}, {SK_RAW, SK_RAW}, 3}, {"operator/", {VK_INT, VK_INT_REL}, {SK_RAW, SK_RAW}, 2}, {"operator%", {VK_INT, VK_INT_REL}, {SK_RAW, SK_RAW}, 2},
    {"operator/=", {VK_INT, VK_INT_REL}, {SK_RAW, SK_RAW}, 1}, {"operator%=", {VK_INT, VK_INT_REL}, {SK_RAW, SK_RAW}, 1},
    // usage forms: the same object on both sides (x /= x, x %= x) and the returned reference used as an lvalue ((x /= y) /= y, (x /= y) %= y)
    {"x /= x", {VK_INT}, {SK_RAW, SK_RAW}, 1}, {"x %= x", {VK_INT}, {SK_RAW, SK_RAW}, 1}, {"(x /= y) /= y", {VK_INT, VK_INT_REL}, {SK_RAW, SK_RAW}, 1}, {"(x /= y) %= y", {VK_INT, VK_INT_REL}, {SK_RAW, SK_RAW}, 1},
};
enum { CL_QUOT_GE2, CL_DIV_PM1, CL_DIV_MIN, CL_DIV_POW2, CL_ZERO_NEIGHBOUR, CL_MINM1_NEIGHBOUR, CL_NEG_OPERAND, CL_X_LT_Y, CL_FULL_LEN_QUOT, CL_ORDINARY };
static const char* const CLASSES[] = {"abs_quotient_ge_2", "divisor_plus_minus_1", "divisor_MIN", "divisor_power_of_two", "zero_divisor_in_other_lane",
                                      "MIN_over_minus1_in_other_lane", "negative_operand", "dividend_smaller_than_divisor", "quotient_uses_all_bits", "ordinary"};

extern "C" const char* vp_property(void) { return "C05"; }
extern "C" const VpOp* vp_ops(uint32_t* n) { *n = OP_COUNT; return OPS; }
extern "C" const char* const* vp_class_names(uint32_t* n) { *n = 10; return CLASSES; }
extern "C" const char* vp_rule(void) {
    return "a case is a (dividend, divisor) vector pair, a form (div, /, %, /=, %=) and the set of lanes given a zero divisor or MIN/-1 (executed, not compared; "
           "never in width-1 vectors); non-trivial = a compared lane with |quotient| >= 2 or divisor in {+-1, MIN, 2^k}, or a zero-divisor neighbour; distinct = distinct hash of the Case";
}
#define INTCLS(c) ((c) != 2)
VP_DEFINE_VECTOR_TARGETS(INTCLS)

template<class V> static void run(const VpCase* c, VpOutcome* o) {
    typedef typename V::scalar T;
    const unsigned W = V::width, B = elem<T>::bits;
    const uint64_t m = elem<T>::mask(), MINP = uint64_t(1) << (B - 1);
    uint64_t x[VP_MAXL], y[VP_MAXL], eq[VP_MAXL], er[VP_MAXL], gq[VP_MAXL], gr[VP_MAXL]; uint8_t cmp[VP_MAXL];
    bool any_minm1 = false, any_zero = false;
    unsigned ncmp = 0;
    for (unsigned i = 0; i < W; ++i) {
        x[i] = c->v[0][i] & m; y[i] = ((c->op == OP_SELF_Q || c->op == OP_SELF_R) ? c->v[0][i] : c->v[1][i]) & m; cmp[i] = 1;
        bool zero_lane = W > 1 && ((uint64_t)c->s[0] >> (i % 64)) & 1;
        bool mm_lane = W > 1 && elem<T>::is_signed && (((uint64_t)c->s[1] >> (i % 64)) & 1) && (((uint64_t)c->s[1] >> 60) == 0xF);
        if (zero_lane) y[i] = 0;
        if (mm_lane && !zero_lane && c->op < OP_SELF_Q) { x[i] = MINP; y[i] = m; }
        if (zero_lane && (c->op == OP_SELF_Q || c->op == OP_SELF_R)) x[i] = 0;
        if (y[i] == 0) { if (W == 1) y[i] = 1; else { cmp[i] = 0; any_zero = true; } }
        if (elem<T>::is_signed && x[i] == MINP && y[i] == m) { if (W == 1) y[i] = 1; else { cmp[i] = 0; any_minm1 = true; } }
        ncmp += cmp[i];
    }
    if (W > 1 && ncmp == 0) { y[0] = 3; cmp[0] = 1; if (elem<T>::is_signed && x[0] == MINP) x[0] = 7; }
    if (c->op == OP_SELF_Q || c->op == OP_SELF_R)      // the divisor is the dividend object itself: keep the two arrays identical
        for (unsigned i = 0; i < W; ++i) { if (W == 1 && x[i] == 0) x[i] = 1; if (W > 1 && ncmp == 0 && i == 0) x[0] = 3; y[i] = x[i]; cmp[i] = x[i] != 0; }
    bool nt = false;
    for (unsigned i = 0; i < W; ++i) {
        if (!cmp[i]) { eq[i] = er[i] = 0; continue; }
        i128 a = elem<T>::is_signed ? (i128)elem<T>::sval(x[i]) : (i128)x[i];
        i128 b = elem<T>::is_signed ? (i128)elem<T>::sval(y[i]) : (i128)y[i];
        i128 q = a / b, r = a % b;
        if (c->op == OP_CHAIN_QQ || c->op == OP_CHAIN_QR) {
            // the intermediate quotient as the element type holds it, divided again (MIN / -1 cannot arise: |q| = MIN needs y = 1)
            i128 q1 = elem<T>::is_signed ? (i128)elem<T>::sval((uint64_t)q & m) : (i128)((uint64_t)q & m);
            r = q1 % b; q = q1 / b;
        }
        eq[i] = (uint64_t)q & m; er[i] = (uint64_t)r & m;
        i128 aq = q < 0 ? -q : q, ab = b < 0 ? -b : b;
        auto cls = [&](unsigned k) { o->classes |= 1u << k; nt = true; };
        if (aq >= 2) cls(CL_QUOT_GE2);
        if (ab == 1) cls(CL_DIV_PM1);
        if (y[i] == MINP) cls(CL_DIV_MIN);
        if (ab > 1 && (ab & (ab - 1)) == 0) cls(CL_DIV_POW2);
        if (a < 0 || b < 0) o->classes |= 1u << CL_NEG_OPERAND;
        if ((a < 0 ? -a : a) < ab) o->classes |= 1u << CL_X_LT_Y;
        if (aq >> (B - 2)) cls(CL_FULL_LEN_QUOT);
    }
    if (any_zero) { o->classes |= 1u << CL_ZERO_NEIGHBOUR; nt = true; }
    if (any_minm1) { o->classes |= 1u << CL_MINM1_NEIGHBOUR; std::snprintf(o->tag, sizeof o->tag, "trap-ok"); }
    if (nt) o->nontrivial = 1; else o->classes |= 1u << CL_ORDINARY;
    V a = mk<V>(x), b = mk<V>(y);
    poison_below(x[0] ^ y[0]);
    switch (c->op) {
    case OP_DIV: { auto r = avel::div(a, b); rd<V>(r.quot, gq); rd<V>(r.rem, gr); break; }
    case OP_QUOT: rd<V>(a / b, gq); break;
    case OP_REM: rd<V>(a % b, gr); break;
    case OP_QUOT_A: { V r = a; r /= b; rd<V>(r, gq); break; }
    case OP_REM_A: { V r = a; r %= b; rd<V>(r, gr); break; }
    case OP_SELF_Q: { V r = a; r /= r; rd<V>(r, gq); break; }
    case OP_SELF_R: { V r = a; r %= r; rd<V>(r, gr); break; }
    case OP_CHAIN_QQ: { V r = a; (r /= b) /= b; rd<V>(r, gq); break; }
    default: { V r = a; (r /= b) %= b; rd<V>(r, gr); break; }
    }
    o->tag[0] = 0;
    const char* zt = any_zero ? (any_minm1 ? ":zero+minm1_neighbour" : ":zero_neighbour") : (any_minm1 ? ":minm1_neighbour" : "");
    char tag[96];
    if (c->op == OP_DIV || c->op == OP_QUOT || c->op == OP_QUOT_A || c->op == OP_SELF_Q || c->op == OP_CHAIN_QQ) { std::snprintf(tag, sizeof tag, "quot%s", zt); if (!cmp_lanes(o, W, eq, gq, cmp, tag, "quotient")) return; }
    if (c->op == OP_DIV || c->op == OP_REM || c->op == OP_REM_A || c->op == OP_SELF_R || c->op == OP_CHAIN_QR) { std::snprintf(tag, sizeof tag, "rem%s", zt); if (!cmp_lanes(o, W, er, gr, cmp, tag, "remainder")) return; }
    if (c->op == OP_DIV) {
        // relation independent of the reference division: quot*y + rem == x, |rem| < |y|, sign(rem) == sign(x) or rem == 0
        for (unsigned i = 0; i < W; ++i) {
            if (!cmp[i]) continue;
            uint64_t back = ((uint64_t)((u128)gq[i] * (u128)y[i]) + gr[i]) & m;
            if (back != x[i]) { fail(o, (int)i, "relation:q*y+r", "quot*y+rem != x in lane %u (q=0x%llx r=0x%llx)", i, (unsigned long long)gq[i], (unsigned long long)gr[i]); return; }
        }
    }
}

extern "C" void vp_run(const VpCase* c, VpOutcome* o) {
    switch (c->target) {
#define X(n) case T_##n: run<avel::n>(c, o); return;
        VP_INT_VECS(X)
#undef X
    default: o->status = 2; return;
    }
}

extern "C" void vp_enum(int tier, uint64_t seed, uint32_t shard, uint32_t nshards, void (*emit)(const VpCase*, void*), void* ctx) {
    uint32_t nt; const VpTarget* T = vp_targets(&nt);
    uint64_t job = 0;
    for (uint32_t t = 0; t < nt; ++t) {
        if (!T[t].present) continue;
        const unsigned W = T[t].width, B = T[t].bits;
        const uint64_t m = B == 64 ? ~0ull : ((1ull << B) - 1);
        std::vector<uint64_t> L = vpl::int_lattice_small(B);
        if (B == 8) { L.clear(); for (unsigned x = 0; x < 256; ++x) L.push_back(x); }
        // the long-division emulations are slow (O(bits) vector steps): thin the 32/64-bit lattice in the quick tier
        if (tier == 0 && B >= 32) { std::vector<uint64_t> S; for (size_t i = 0; i < L.size(); i += (B == 64 ? 4 : 2)) S.push_back(L[i]); S.push_back(m); S.push_back(1ull << (B - 1)); S.push_back((1ull << (B - 1)) - 1); L = S; }
        const size_t n = L.size();
        for (unsigned op = 0; op < OP_COUNT; ++op) {
            if ((job++ % nshards) != shard) continue;
            if (op >= OP_QUOT_A && tier == 0 && B >= 32) continue;   // assignment forms are covered by the random phase in quick
            VpCase c; std::memset(&c, 0, sizeof c); c.target = t; c.op = op;
            size_t fill = 0; uint64_t rot = seed + op, cnt = 0;
            for (size_t i = 0; i < n; ++i)
                for (size_t j = 0; j < n; ++j) {
                    unsigned lane = (unsigned)((fill + rot) % W);
                    c.v[0][lane] = L[i]; c.v[1][lane] = L[j];
                    if (++fill == W) {
                        // every fourth vector: zero divisors in a rotating subset of the other lanes
                        c.s[0] = (W > 1 && (cnt % 4) == 3) ? (int64_t)((0x9E3779B97F4A7C15ull * (cnt + 1)) | (1ull << (cnt % W))) & ~(int64_t)(1ull << ((cnt / 4) % W)) : 0;
                        c.s[1] = (W > 1 && (cnt % 16) == 5) ? (int64_t)(0xF000000000000000ull | (1ull << (cnt % W))) : 0;
                        emit(&c, ctx); fill = 0; ++rot; ++cnt;
                    }
                }
            c.s[0] = c.s[1] = 0;
            if (fill) emit(&c, ctx);
            // quotient-length classes: for every k a vector whose largest quotient has exactly k significant bits,
            // and mixed vectors where one lane needs all iterations while the others finish at once
            for (unsigned k = 0; k <= B; ++k)
                for (unsigned hot = 0; hot < W; ++hot) {
                    for (unsigned lane = 0; lane < W; ++lane) { c.v[0][lane] = (3 + lane) & m; c.v[1][lane] = (100 + lane) & m; }
                    uint64_t num = (k == 0) ? 5 : ((m >> (B - k)) & (T[t].cls == 1 ? (m >> 1) : m));
                    uint64_t den = (k == 0) ? 9 : 1;
                    if (k >= 2) { den = 1 + (seed % 2); num = ((1ull << (k - 1)) * den | (seed & 1)) & (T[t].cls == 1 ? (m >> 1) : m); if (!num) num = 1; }
                    c.v[0][hot] = num; c.v[1][hot] = den;
                    emit(&c, ctx);
                    if (W > 1) { c.s[0] = (int64_t)(1ull << ((hot + 1) % W)); emit(&c, ctx); c.s[0] = 0; }
                }
        }
    }
}

template<class V> static void sweep16(unsigned t, unsigned op, uint32_t shard, uint32_t nshards, void (*emit)(const VpCase*, void*), void* ctx, uint64_t* evals, uint64_t* lanes) {
    const unsigned W = V::width;
    VpCase c; std::memset(&c, 0, sizeof c); c.target = t; c.op = op;
    for (uint32_t a = shard; a < 65536; a += nshards)
        for (uint32_t b0 = 0; b0 < 65536; b0 += W) {
            for (unsigned i = 0; i < W; ++i) { c.v[0][i] = (a + i * 257u) & 0xFFFF; c.v[1][i] = (b0 + i) & 0xFFFF; }
            VpOutcome o; std::memset(&o, 0, sizeof o); o.bad_lane = -1;
            run<V>(&c, &o);
            ++*evals; *lanes += o.lanes_compared;
            if (o.status == 1) { emit(&c, ctx); return; }
        }
}

extern "C" void vp_sweep(int tier, uint64_t, uint32_t shard, uint32_t nshards, void (*emit)(const VpCase*, void*), void* ctx, uint64_t* evals, uint64_t* lanes, char* d, size_t cap) {
    if (tier < 1) { std::snprintf(d, cap, "all 65536 (dividend, divisor) pairs of both 8-bit element types for div, / and % in every width (zero-divisor lanes executed, not compared)"); return; }
#define X(n) if (sizeof(avel::n::scalar) == 2) sweep16<avel::n>(T_##n, OP_DIV, shard, nshards, emit, ctx, evals, lanes);
    VP_INT_VECS(X)
#undef X
    std::snprintf(d, cap, "all 65536 (dividend, divisor) pairs of both 8-bit element types for every form and width;all 2^32 (dividend, divisor) pairs of both 16-bit element types for div() in every width");
}
