// C06: bit-counting functions match C++20 <bit> for every input (vector lanes and scalar overloads).
#define VP_CHECK_OBJECT
#include "../vp.hpp"
#include "../lattice.hpp"

using namespace vp;

#define C06_FUNCS(X) X(popcount) X(countl_zero) X(countl_one) X(countr_zero) X(countr_one) X(bit_width) X(bit_floor) X(bit_ceil) X(byteswap) X(countl_sign)
enum { F_popcount, F_countl_zero, F_countl_one, F_countr_zero, F_countr_one, F_bit_width, F_bit_floor, F_bit_ceil, F_byteswap, F_countl_sign, F_has_single_bit, F_COUNT };
// ops: 0..10 vector forms, 11..21 scalar overloads (width-1 targets only), 22 constant-operand vector form, 23 constant-operand scalar form, 24 metamorphic
enum { OP_VEC0 = 0, OP_SC0 = F_COUNT, OP_CONST_VEC = 2 * F_COUNT, OP_CONST_SC, OP_META, OP_COUNT };
static const VpOp OPS[] = {
    {"popcount", {VK_INT}, {}, 1}, {"countl_zero", {VK_INT}, {}, 1}, {"countl_one", {VK_INT}, {}, 1}, {"countr_zero", {VK_INT}, {}, 1}, {"countr_one", {VK_INT}, {}, 1},
    {"bit_width", {VK_INT}, {}, 1}, {"bit_floor", {VK_INT}, {}, 1}, {"bit_ceil", {VK_INT}, {}, 1}, {"byteswap", {VK_INT}, {}, 1}, {"countl_sign", {VK_INT}, {}, 1}, {"has_single_bit", {VK_INT}, {}, 1},
    {"scalar_popcount", {VK_INT}, {}, 1}, {"scalar_countl_zero", {VK_INT}, {}, 1}, {"scalar_countl_one", {VK_INT}, {}, 1}, {"scalar_countr_zero", {VK_INT}, {}, 1}, {"scalar_countr_one", {VK_INT}, {}, 1},
    {"scalar_bit_width", {VK_INT}, {}, 1}, {"scalar_bit_floor", {VK_INT}, {}, 1}, {"scalar_bit_ceil", {VK_INT}, {}, 1}, {"scalar_byteswap", {VK_INT}, {}, 1}, {"scalar_countl_sign", {VK_INT}, {}, 1}, {"scalar_has_single_bit", {VK_INT}, {}, 1},
    {"constant_operand_vector", {}, {SK_SMALL, SK_SMALL}, 1}, {"constant_operand_scalar", {}, {SK_SMALL, SK_SMALL}, 1},
    {"metamorphic", {VK_INT}, {}, 1},
};
enum { CL_ZERO, CL_ALLONES, CL_TOPBIT, CL_ONE, CL_ABOVE_TOP_POW2, CL_SINGLE_BIT, CL_ORDINARY };
static const char* const CLASSES[] = {"zero", "all_ones", "top_bit_only", "one", "above_top_power_of_two", "single_bit", "ordinary"};

extern "C" const char* vp_property(void) { return "C06"; }
extern "C" const VpOp* vp_ops(uint32_t* n) { *n = OP_COUNT; return OPS; }
extern "C" const char* const* vp_class_names(uint32_t* n) { *n = 7; return CLASSES; }
extern "C" const char* vp_rule(void) {
    return "a case is one vector of element values and one bit function (vector form, scalar overload, or constant-operand form); "
           "non-trivial = a lane in {0, 1, all-ones, top bit only, above the top power of two, any single-bit value}; distinct = distinct hash of the Case";
}
#define INTCLS(c) ((c) != 2)
VP_DEFINE_VECTOR_TARGETS(INTCLS)

// ---- oracle: naive bit loops on the unsigned image ----
template<class T> static uint64_t ref(unsigned f, uint64_t x, bool* defined) {
    const unsigned B = elem<T>::bits; const uint64_t m = elem<T>::mask();
    x &= m; *defined = true;
    auto bit = [&](unsigned i) { return (x >> i) & 1; };
    unsigned n;
    switch (f) {
    case F_popcount: n = 0; for (unsigned i = 0; i < B; ++i) n += bit(i); return n;
    case F_countl_zero: n = 0; for (int i = B - 1; i >= 0 && !bit(i); --i) ++n; return n;
    case F_countl_one: n = 0; for (int i = B - 1; i >= 0 && bit(i); --i) ++n; return n;
    case F_countr_zero: n = 0; for (unsigned i = 0; i < B && !bit(i); ++i) ++n; return n;
    case F_countr_one: n = 0; for (unsigned i = 0; i < B && bit(i); ++i) ++n; return n;
    case F_bit_width: n = 0; for (unsigned i = 0; i < B; ++i) if (bit(i)) n = i + 1; return n;
    case F_bit_floor: {
        if (elem<T>::is_signed && bit(B - 1)) { *defined = false; return 0; }  // documented undefined for negatives
        uint64_t r = 0; for (unsigned i = 0; i < B; ++i) if (bit(i)) r = uint64_t(1) << i; return r;
    }
    case F_bit_ceil: {
        if (elem<T>::is_signed && bit(B - 1)) { *defined = false; return 0; }
        if (x <= 1) return 1;
        for (unsigned i = 0; i < B; ++i) if ((uint64_t(1) << i) >= x) return (uint64_t(1) << i) & m;
        return 0;  // does not fit
    }
    case F_byteswap: { uint64_t r = 0; for (unsigned i = 0; i < B / 8; ++i) r |= ((x >> (8 * i)) & 0xFF) << (B - 8 - 8 * i); return r; }
    case F_countl_sign: { n = 0; unsigned s = bit(B - 1); for (int i = B - 2; i >= 0 && bit(i) == s; --i) ++n; return n; }
    default: n = 0; for (unsigned i = 0; i < B; ++i) n += bit(i); return n == 1;
    }
}

// fast second implementation of the oracle on compiler builtins (used alone in the 2^32 sweeps; everywhere else it is cross-checked
// against the bit loops and a disagreement is reported as a harness error, not as a violation)
static bool g_fast_oracle_only = false;
template<class T> static uint64_t ref_fast(unsigned f, uint64_t x, bool* defined) {
    const unsigned B = elem<T>::bits; const uint64_t m = elem<T>::mask();
    x &= m; *defined = true;
    switch (f) {
    case F_popcount: return (uint64_t)__builtin_popcountll(x);
    case F_countl_zero: return x ? (uint64_t)__builtin_clzll(x) - (64 - B) : B;
    case F_countl_one: { uint64_t y = (~x) & m; return y ? (uint64_t)__builtin_clzll(y) - (64 - B) : B; }
    case F_countr_zero: return x ? (uint64_t)__builtin_ctzll(x) : B;
    case F_countr_one: { uint64_t y = (~x) & m; return y ? (uint64_t)__builtin_ctzll(y) : B; }
    case F_bit_width: return x ? 64 - (uint64_t)__builtin_clzll(x) : 0;
    case F_bit_floor: if (elem<T>::is_signed && (x >> (B - 1))) { *defined = false; return 0; } return x ? (uint64_t(1) << (63 - __builtin_clzll(x))) : 0;
    case F_bit_ceil: { if (elem<T>::is_signed && (x >> (B - 1))) { *defined = false; return 0; } if (x <= 1) return 1; unsigned w = 64 - (unsigned)__builtin_clzll(x - 1); return w >= B ? 0 : (uint64_t(1) << w); }
    case F_byteswap: return __builtin_bswap64(x) >> (64 - B);
    case F_countl_sign: { uint64_t y = (x ^ (x << 1)) & m & ~uint64_t(1); y >>= 1; /* bit i set iff bit i and bit i+1 of x differ */ uint64_t d = (x ^ (x >> 1)) & (m >> 1); return d ? (uint64_t)__builtin_clzll(d) - (64 - (B - 1)) : B - 1; }
    default: return (uint64_t)(__builtin_popcountll(x) == 1);
    }
}

// ---- which functions does a type provide? (SFINAE; explicit constructors make these exact) ----
#define DEF_HAS(fn) \
    template<class X, class R> struct has_##fn { \
        template<class U> static auto t(int) -> typename std::is_same<decltype(avel::fn(std::declval<U>())), R>::type; \
        template<class U> static std::false_type t(...); \
        static const bool value = decltype(t<X>(0))::value; };
C06_FUNCS(DEF_HAS)
DEF_HAS(has_single_bit)

template<bool Has> struct Call;
template<> struct Call<false> { template<class F, class X, class R> static bool go(F, const X&, R&) { return false; } };
template<> struct Call<true> { template<class F, class X, class R> static bool go(F f, const X& x, R& r) { r = f(x); return true; } };

#define DEF_FN(fn) struct fn_##fn { template<class X> auto operator()(const X& x) const -> decltype(avel::fn(x)) { return avel::fn(x); } };
C06_FUNCS(DEF_FN)
DEF_FN(has_single_bit)

template<class T> static void classify(uint64_t x, VpOutcome* o) {
    const unsigned B = elem<T>::bits; const uint64_t m = elem<T>::mask();
    x &= m;
    bool nt = true;
    if (x == 0) o->classes |= 1u << CL_ZERO;
    else if (x == m) o->classes |= 1u << CL_ALLONES;
    else if (x == (uint64_t(1) << (B - 1))) o->classes |= 1u << CL_TOPBIT;
    else if (x == 1) o->classes |= 1u << CL_ONE;
    else if (x > (uint64_t(1) << (B - 1))) o->classes |= 1u << CL_ABOVE_TOP_POW2;
    else if ((x & (x - 1)) == 0) o->classes |= 1u << CL_SINGLE_BIT;
    else { nt = false; o->classes |= 1u << CL_ORDINARY; }
    if (nt) o->nontrivial = 1;
}

// constants for the constant-operand phase
template<class T, unsigned K> struct Konst {
    typedef typename std::make_unsigned<T>::type U;
    static constexpr U top = U(U(1) << (sizeof(T) * 8 - 1));
    static constexpr U value = K == 0 ? U(0) : K == 1 ? U(1) : K == 2 ? U(2) : K == 3 ? U(3) : K == 4 ? U(~U(0)) : K == 5 ? U(~U(0) - 1) : K == 6 ? top :
                               K == 7 ? U(top + 1) : K == 8 ? U(top - 1) : K == 9 ? U(top >> 1) : K == 10 ? U((top >> 1) + 1) : U(0x5A5A5A5A5A5A5A5Aull);
};

template<class V, bool Scalar> struct ConstEval {
    typedef typename V::scalar T;
    unsigned f; uint64_t got; bool have; uint64_t input;
    template<class Fn, bool HasV, bool HasS, unsigned K> void one(Fn fn) {
        const T x = (T)Konst<T, K>::value;
        input = elem<T>::to_bits(x);
        if (Scalar) { T r{}; have = Call<HasS>::go(fn, x, r); got = elem<T>::to_bits(r); }
        else { V r{}; have = Call<HasV>::go(fn, V{x}, r); uint64_t l[VP_MAXL]; rd<V>(r, l); got = l[0]; }
    }
    template<unsigned K> void at() {
        switch (f) {
#define X(fn) case F_##fn: one<fn_##fn, has_##fn<V, V>::value, has_##fn<T, T>::value, K>(fn_##fn()); break;
            C06_FUNCS(X)
#undef X
        default: have = false;
        }
    }
};

template<class V> static void run(const VpCase* c, VpOutcome* o) {
    typedef typename V::scalar T;
    typedef typename V::mask M;
    const unsigned W = V::width;
    const unsigned op = c->op;
    uint64_t exp[VP_MAXL], got[VP_MAXL]; uint8_t cmp[VP_MAXL];
    if (op == OP_CONST_VEC || op == OP_CONST_SC) {
        if (W != 1) { o->status = 2; return; }
        unsigned f = (unsigned)(c->s[0] < 0 ? -c->s[0] : c->s[0]) % 10, k = (unsigned)(c->s[1] < 0 ? -c->s[1] : c->s[1]) % 12;
        uint64_t g = 0, in = 0; bool have = false;
        if (op == OP_CONST_VEC) { ConstEval<V, false> e; e.f = f; e.have = false; e.got = 0; e.input = 0; dispatch<12>::go(k, e); g = e.got; have = e.have; in = e.input; }
        else { ConstEval<V, true> e; e.f = f; e.have = false; e.got = 0; e.input = 0; dispatch<12>::go(k, e); g = e.got; have = e.have; in = e.input; }
        if (!have) { o->status = 2; return; }
        bool def; uint64_t e = ref<T>(f, in, &def);
        classify<T>(in, o);
        if (!def) return;
        exp[0] = e; got[0] = g; cmp[0] = 1;
        char tag[96]; std::snprintf(tag, sizeof tag, "constant_operand:%s", OPS[f].name);
        char what[96]; std::snprintf(what, sizeof what, "%s(constant 0x%llx)", OPS[f].name, (unsigned long long)in);
        cmp_lanes(o, 1, exp, got, cmp, tag, what);
        return;
    }
    V a = mk<V>(c->v[0]);
    if (op == OP_META) {
        uint64_t x[VP_MAXL], y[VP_MAXL];
        for (unsigned i = 0; i < W; ++i) classify<T>(c->v[0][i], o);
        { V p{}, q{}; if (Call<has_popcount<V, V>::value>::go(fn_popcount(), a, p) && Call<has_popcount<V, V>::value>::go(fn_popcount(), ~a, q)) {
            rd<V>(p + q, x); for (unsigned i = 0; i < W; ++i) y[i] = elem<T>::bits;
            if (!cmp_lanes(o, W, y, x, nullptr, "meta:popcount_complement", "popcount(x)+popcount(~x)==bits")) return; } }
        { V p{}, q{}; if (Call<has_byteswap<V, V>::value>::go(fn_byteswap(), a, p) && Call<has_byteswap<V, V>::value>::go(fn_byteswap(), p, q)) {
            rd<V>(q, x); rd<V>(a, y);
            if (!cmp_lanes(o, W, y, x, nullptr, "meta:byteswap_involution", "byteswap(byteswap(x))==x")) return; } }
        { V p{}, q{}; if (Call<has_countl_zero<V, V>::value>::go(fn_countl_zero(), a, p) && Call<has_bit_width<V, V>::value>::go(fn_bit_width(), a, q)) {
            rd<V>(p + q, x); for (unsigned i = 0; i < W; ++i) y[i] = elem<T>::bits;
            if (!cmp_lanes(o, W, y, x, nullptr, "meta:clz_bit_width", "countl_zero(x)+bit_width(x)==bits")) return; } }
        return;
    }
    const bool scalar = op >= OP_SC0;
    const unsigned f = scalar ? op - OP_SC0 : op;
    poison_below(c->v[0][0] ^ op);
    if (scalar && W != 1) { o->status = 2; return; }
    bool have = false;
    if (scalar) {
        T x = elem<T>::from_bits(c->v[0][0]); T r{}; bool rb = false;
        switch (f) {
#define X(fn) case F_##fn: have = Call<has_##fn<T, T>::value>::go(fn_##fn(), x, r); break;
            C06_FUNCS(X)
#undef X
        default: have = Call<has_has_single_bit<T, bool>::value>::go(fn_has_single_bit(), x, rb); r = (T)rb; break;
        }
        got[0] = elem<T>::to_bits(r);
    } else {
        V r{}; M rm{};
        switch (f) {
#define X(fn) case F_##fn: have = Call<has_##fn<V, V>::value>::go(fn_##fn(), a, r); break;
            C06_FUNCS(X)
#undef X
        default: have = Call<has_has_single_bit<V, M>::value>::go(fn_has_single_bit(), a, rm); break;
        }
        if (f == F_has_single_bit) rdmask<M>(rm, got); else rd<V>(r, got);
    }
    if (!have) { o->status = 2; return; }
    for (unsigned i = 0; i < W; ++i) {
        bool def, def2; exp[i] = ref_fast<T>(f, c->v[0][i], &def); cmp[i] = def;
        if (!g_fast_oracle_only) {
            uint64_t slow = ref<T>(f, c->v[0][i], &def2);
            if (def != def2 || (def && slow != exp[i])) { o->status = 1; std::snprintf(o->tag, sizeof o->tag, "harness-inconsistent"); std::snprintf(o->msg, sizeof o->msg, "bit-loop oracle and builtin oracle disagree for %s(0x%llx): %llx vs %llx", OPS[op].name, (unsigned long long)c->v[0][i], (unsigned long long)slow, (unsigned long long)exp[i]); return; }
            classify<T>(c->v[0][i], o);
        }
    }
    char tag[96]; std::snprintf(tag, sizeof tag, "value");
    cmp_lanes(o, W, exp, got, cmp, tag, OPS[op].name);
}

extern "C" void vp_run(const VpCase* c, VpOutcome* o) {
    switch (c->target) {
#define X(n) case T_##n: run<avel::n>(c, o); return;
        VP_INT_VECS(X)
#undef X
    default: o->status = 2; return;
    }
}

static std::vector<uint64_t> structured64() {
    std::set<uint64_t> s;
    for (unsigned i = 0; i < 64; ++i) {
        uint64_t b = uint64_t(1) << i;
        for (uint64_t x : {b, b - 1, ~(b - 1), b + 1, b - 2}) { s.insert(x); s.insert(~x); s.insert(x + 1); s.insert(x - 1); }
        for (unsigned j = 0; j < i; j += (i > 8 ? 5 : 1)) { uint64_t t = b | (uint64_t(1) << j); s.insert(t); s.insert(~t); }
    }
    for (uint64_t x : vpl::int_lattice(64)) s.insert(x);
    return std::vector<uint64_t>(s.begin(), s.end());
}

extern "C" void vp_enum(int tier, uint64_t seed, uint32_t shard, uint32_t nshards, void (*emit)(const VpCase*, void*), void* ctx) {
    uint32_t nt; const VpTarget* T = vp_targets(&nt);
    uint64_t job = 0;
    for (uint32_t t = 0; t < nt; ++t) {
        if (!T[t].present) continue;
        const unsigned W = T[t].width, B = T[t].bits;
        std::vector<uint64_t> L;
        if (B == 8) for (unsigned x = 0; x < 256; ++x) L.push_back(x);
        else if (B == 16) for (unsigned x = 0; x < 65536; ++x) L.push_back(x);
        else if (B == 32) { L = vpl::int_lattice(32); for (uint64_t x : structured64()) { L.push_back(x & 0xFFFFFFFFull); L.push_back(x >> 32); } }
        else L = structured64();
        const size_t n = L.size();
        for (unsigned op = 0; op < OP_COUNT; ++op) {
            if ((job++ % nshards) != shard) continue;
            VpCase c; std::memset(&c, 0, sizeof c); c.target = t; c.op = op;
            if (op == OP_CONST_VEC || op == OP_CONST_SC) {
                if (W != 1) continue;
                for (unsigned f = 0; f < 10; ++f) for (unsigned k = 0; k < 12; ++k) { c.s[0] = f; c.s[1] = k; emit(&c, ctx); }
                continue;
            }
            if (op >= OP_SC0 && op < OP_CONST_VEC && W != 1) continue;
            size_t fill = 0; uint64_t rot = seed + op;
            for (size_t i = 0; i < n; ++i) {
                c.v[0][(fill + rot) % W] = L[i];
                if (++fill == W) { emit(&c, ctx); fill = 0; ++rot; }
            }
            if (fill) emit(&c, ctx);
        }
    }
}

// thorough: every 32-bit value for every function of the 32-bit element types
template<class V> static void sweep32(unsigned t, uint32_t shard, uint32_t nshards, void (*emit)(const VpCase*, void*), void* ctx, uint64_t* evals, uint64_t* lanes) {
    typedef typename V::scalar T;
    const unsigned W = V::width;
    for (unsigned op = 0; op < F_COUNT; ++op) {
        VpCase c; std::memset(&c, 0, sizeof c); c.target = t; c.op = op;
        { VpOutcome po; std::memset(&po, 0, sizeof po); run<V>(&c, &po); if (po.status == 2) continue; }
        bool failed = false;
        g_fast_oracle_only = true;
        for (uint64_t base = (uint64_t)shard * W; base < (uint64_t(1) << 32) && !failed; base += (uint64_t)nshards * W) {
            for (unsigned i = 0; i < W; ++i) c.v[0][i] = (base + i) & 0xFFFFFFFFull;
            VpOutcome o; std::memset(&o, 0, sizeof o); o.bad_lane = -1;
            run<V>(&c, &o);
            ++*evals; *lanes += o.lanes_compared;
            if (o.status == 1) { g_fast_oracle_only = false; emit(&c, ctx); g_fast_oracle_only = true; failed = true; }
        }
        g_fast_oracle_only = false;
    }
}

extern "C" void vp_sweep(int tier, uint64_t, uint32_t shard, uint32_t nshards, void (*emit)(const VpCase*, void*), void* ctx, uint64_t* evals, uint64_t* lanes, char* d, size_t cap) {
    if (tier < 1) { std::snprintf(d, cap, "every 8-bit and every 16-bit element value for every provided bit function, vector lanes and scalar overloads (deterministic phase)"); return; }
#define X(n) if (sizeof(avel::n::scalar) == 4) sweep32<avel::n>(T_##n, shard, nshards, emit, ctx, evals, lanes);
    VP_INT_VECS(X)
#undef X
    std::snprintf(d, cap, "every 8-bit and every 16-bit element value for every provided bit function, vector lanes and scalar overloads;every 32-bit element value for every provided vector bit function in every width");
}
