// C01: integer + - * and negation are lane-wise two's-complement arithmetic.
#define VP_CHECK_OBJECT
#include "../vp.hpp"
#include "../lattice.hpp"

using namespace vp;

enum { OP_ADD, OP_SUB, OP_MUL, OP_ADD_A, OP_SUB_A, OP_MUL_A, OP_NEG, OP_PREINC, OP_POSTINC, OP_PREDEC, OP_POSTDEC, OP_META, OP_SELF, OP_CHAIN, OP_COUNT };
static const VpOp OPS[] = {
    {"add", {VK_INT, VK_INT_REL}, {}, 1}, {"sub", {VK_INT, VK_INT_REL}, {}, 1}, {"mul", {VK_INT, VK_INT_REL}, {}, 2},
    {"add_assign", {VK_INT, VK_INT_REL}, {}, 1}, {"sub_assign", {VK_INT, VK_INT_REL}, {}, 1}, {"mul_assign", {VK_INT, VK_INT_REL}, {}, 1},
    {"neg", {VK_INT}, {}, 1}, {"preinc", {VK_INT}, {}, 1}, {"postinc", {VK_INT}, {}, 1}, {"predec", {VK_INT}, {}, 1}, {"postdec", {VK_INT}, {}, 1},
    {"metamorphic", {VK_INT, VK_INT_REL}, {SK_AMT}, 1},
    // usage forms: the same object on both sides (x += x, x -= x, x *= x, x = x + x ...), and the reference a compound assignment returns used as an lvalue ((x -= y) -= z ...)
    {"self_aliased_compound", {VK_INT}, {SK_SMALL}, 1}, {"chained_compound", {VK_INT, VK_INT_REL, VK_INT}, {SK_SMALL}, 1},
};
enum { CL_OVERFLOW, CL_SUBLANE_CARRY, CL_MIN, CL_ZERO, CL_ORDINARY };
static const char* const CLASSES[] = {"result_wraps", "carry_across_sublane", "operand_is_MIN", "operand_is_zero", "ordinary"};

extern "C" const char* vp_property(void) { return "C01"; }
extern "C" const VpOp* vp_ops(uint32_t* n) { *n = OP_COUNT; return OPS; }
extern "C" const char* const* vp_class_names(uint32_t* n) { *n = 5; return CLASSES; }
extern "C" const char* vp_rule(void) {
    return "a case is one operand vector (pair) and one operator form; non-trivial = at least one lane whose exact result does not "
           "fit the element type (wraps) or whose partial sums/products carry across an 8/16/32-bit sub-lane boundary, or an operand equal to MIN; "
           "distinct = distinct hash of the whole Case";
}
#define INTCLS(c) ((c) != 2)
VP_DEFINE_VECTOR_TARGETS(INTCLS)

template<class T> static uint64_t ref(unsigned op, uint64_t a, uint64_t b) {
    const uint64_t m = elem<T>::mask();
    a &= m; b &= m;
    switch (op) {
    case OP_ADD: case OP_ADD_A: return (a + b) & m;
    case OP_SUB: case OP_SUB_A: return (a - b) & m;
    case OP_MUL: case OP_MUL_A: return (uint64_t)((u128)a * (u128)b) & m;
    case OP_NEG: return (0 - a) & m;
    case OP_PREINC: case OP_POSTINC: return (a + 1) & m;
    default: return (a - 1) & m;
    }
}

template<class T> static void classify(unsigned op, uint64_t a, uint64_t b, VpOutcome* o) {
    const unsigned B = elem<T>::bits;
    const uint64_t m = elem<T>::mask();
    a &= m; b &= m;
    bool nt = false;
    if (a == (uint64_t(1) << (B - 1)) || ((op <= OP_MUL_A || op == OP_META) && b == (uint64_t(1) << (B - 1)))) { o->classes |= 1u << CL_MIN; nt = true; }
    if (a == 0 || b == 0) o->classes |= 1u << CL_ZERO;
    u128 exact; bool wraps;
    if (elem<T>::is_signed) {
        i128 sa = elem<T>::sval(a), sb = elem<T>::sval(b), r;
        switch (op) {
        case OP_ADD: case OP_ADD_A: r = sa + sb; break; case OP_SUB: case OP_SUB_A: r = sa - sb; break; case OP_MUL: case OP_MUL_A: r = sa * sb; break;
        case OP_NEG: r = -sa; break; case OP_PREINC: case OP_POSTINC: r = sa + 1; break; default: r = sa - 1; break;
        }
        wraps = r < -((i128)1 << (B - 1)) || r > (((i128)1 << (B - 1)) - 1);
    } else {
        u128 ua = a, ub = b;
        switch (op) {
        case OP_ADD: case OP_ADD_A: wraps = ua + ub > (u128)m; break; case OP_SUB: case OP_SUB_A: wraps = ua < ub; break; case OP_MUL: case OP_MUL_A: wraps = ua * ub > (u128)m; break;
        case OP_NEG: wraps = a != 0; break; case OP_PREINC: case OP_POSTINC: wraps = a == m; break; default: wraps = a == 0; break;
        }
    }
    (void)exact;
    if (wraps) { o->classes |= 1u << CL_OVERFLOW; nt = true; }
    // carries across 8/16/32-bit sub-lane boundaries in the low-level sum/difference/partial products
    for (unsigned h = 8; h < B; h *= 2) {
        uint64_t lm = (uint64_t(1) << h) - 1;
        bool carry = false;
        if (op == OP_ADD || op == OP_ADD_A || op == OP_PREINC || op == OP_POSTINC) carry = ((a & lm) + ((op >= OP_PREINC ? 1 : b) & lm)) > lm;
        else if (op == OP_SUB || op == OP_SUB_A || op == OP_PREDEC || op == OP_POSTDEC || op == OP_NEG) carry = (op == OP_NEG) ? ((a & lm) != 0) : ((a & lm) < ((op >= OP_PREDEC ? 1 : b) & lm));
        else if (op == OP_MUL || op == OP_MUL_A) carry = ((u128)(a & lm) * (u128)(b & lm)) > (u128)lm;
        if (carry) { o->classes |= 1u << CL_SUBLANE_CARRY; nt = true; }
    }
    if (!nt) o->classes |= 1u << CL_ORDINARY; else o->nontrivial = 1;
}

template<class V> static void run(const VpCase* c, VpOutcome* o) {
    typedef typename V::scalar T;
    typedef typename std::make_signed<T>::type ST;
    typedef avel::Vector<ST, V::width> SV;
    const unsigned W = V::width;
    const uint64_t m = elem<T>::mask();
    V a = mk<V>(c->v[0]), b = mk<V>(c->v[1]);
    poison_below(c->v[0][0] ^ c->op);
    uint64_t got[VP_MAXL], exp[VP_MAXL], got2[VP_MAXL], exp2[VP_MAXL];
    bool two = false;
    const unsigned op = c->op;
    if (op == OP_META) {
        // relations that do not depend on the reference: (a+b)-b == a, a*b == b*a, -a == 0-a, a*2^k == a<<k (k < bits)
        unsigned k = (unsigned)(c->s[0] < 0 ? 0 : c->s[0]) % elem<T>::bits;
        uint64_t x[VP_MAXL], y[VP_MAXL];
        rd<V>((a + b) - b, x); rd<V>(a, y);
        for (unsigned i = 0; i < W; ++i) { classify<T>(OP_ADD, c->v[0][i], c->v[1][i], o); }
        if (!cmp_lanes(o, W, y, x, nullptr, "meta:add_sub", "(a+b)-b == a")) return;
        rd<V>(a * b, x); rd<V>(b * a, y);
        if (!cmp_lanes(o, W, y, x, nullptr, "meta:mul_commutes", "a*b == b*a")) return;
        uint64_t p2[VP_MAXL]; for (unsigned i = 0; i < W; ++i) p2[i] = (uint64_t(1) << k) & m;
        rd<V>(a * mk<V>(p2), x); rd<V>(a << (long long)k, y);
        if (!cmp_lanes(o, W, y, x, nullptr, "meta:mul_pow2_is_shift", "a*2^k == a<<k")) return;
        uint64_t z[VP_MAXL] = {0};
        rd<SV>(-a, x);
        { V zero = mk<V>(z); rd<V>(zero - a, y); }
        if (!cmp_lanes(o, W, y, x, nullptr, "meta:neg_is_zero_minus", "-a == 0-a")) return;
        return;
    }
    if (op == OP_SELF) {
        const unsigned k = (unsigned)(c->s[0] < 0 ? -c->s[0] : c->s[0]) % 6;
        const unsigned base = k % 3 == 0 ? OP_ADD : k % 3 == 1 ? OP_SUB : OP_MUL;
        for (unsigned i = 0; i < W; ++i) { exp[i] = ref<T>(base, c->v[0][i], c->v[0][i]); classify<T>(base, c->v[0][i], c->v[0][i], o); }
        V x = a;
        switch (k) { case 0: x += x; break; case 1: x -= x; break; case 2: x *= x; break; case 3: x = x + x; break; case 4: x = x - x; break; default: x = x * x; break; }
        rd<V>(x, got);
        static const char* const nm[6] = {"x += x", "x -= x", "x *= x", "x = x + x", "x = x - x", "x = x * x"};
        char tag[96]; std::snprintf(tag, sizeof tag, "self_aliased:%s", nm[k]);
        cmp_lanes(o, W, exp, got, nullptr, tag, nm[k]);
        return;
    }
    if (op == OP_CHAIN) {
        // (x op1= y) op2= z must leave x = (x op1 y) op2 z: the first operator returns a reference to x
        const unsigned k = (unsigned)(c->s[0] < 0 ? -c->s[0] : c->s[0]) % 12;
        const unsigned o1 = k % 3, o2 = (k / 3) % 4;       // o2 == 3: ++ / -- applied to the returned reference
        V cz = mk<V>(c->v[2]);
        for (unsigned i = 0; i < W; ++i) {
            const uint64_t t1 = ref<T>(OP_ADD + o1, c->v[0][i], c->v[1][i]);
            exp[i] = o2 < 3 ? ref<T>(OP_ADD + o2, t1, c->v[2][i]) : ref<T>(o1 == 1 ? OP_PREDEC : OP_PREINC, t1, 0);
            classify<T>(OP_ADD + o1, c->v[0][i], c->v[1][i], o);
        }
        V x = a;
#define VP_FIRST(x, y) (o1 == 0 ? (x += y) : o1 == 1 ? (x -= y) : (x *= y))
        switch (o2) {
        case 0: if (o1 == 0) (x += b) += cz; else if (o1 == 1) (x -= b) += cz; else (x *= b) += cz; break;
        case 1: if (o1 == 0) (x += b) -= cz; else if (o1 == 1) (x -= b) -= cz; else (x *= b) -= cz; break;
        case 2: if (o1 == 0) (x += b) *= cz; else if (o1 == 1) (x -= b) *= cz; else (x *= b) *= cz; break;
        default: if (o1 == 0) ++(x += b); else if (o1 == 1) --(x -= b); else ++(x *= b); break;
        }
#undef VP_FIRST
        rd<V>(x, got);
        char tag[96]; std::snprintf(tag, sizeof tag, "chained:%c=_then_%s", "+-*"[o1], o2 == 0 ? "+=" : o2 == 1 ? "-=" : o2 == 2 ? "*=" : "inc_dec");
        cmp_lanes(o, W, exp, got, nullptr, tag, "(x op= y) op= z");
        return;
    }
    for (unsigned i = 0; i < W; ++i) { exp[i] = ref<T>(op, c->v[0][i], c->v[1][i]); classify<T>(op, c->v[0][i], c->v[1][i], o); }
    switch (op) {
    case OP_ADD: rd<V>(a + b, got); break;
    case OP_SUB: rd<V>(a - b, got); break;
    case OP_MUL: rd<V>(a * b, got); break;
    case OP_ADD_A: { V r = a; auto&& rr = (r += b); rd<V>(r, got); rd<V>(rr, got2); two = true; for (unsigned i = 0; i < W; ++i) exp2[i] = exp[i]; break; }
    case OP_SUB_A: { V r = a; auto&& rr = (r -= b); rd<V>(r, got); rd<V>(rr, got2); two = true; for (unsigned i = 0; i < W; ++i) exp2[i] = exp[i]; break; }
    case OP_MUL_A: { V r = a; auto&& rr = (r *= b); rd<V>(r, got); rd<V>(rr, got2); two = true; for (unsigned i = 0; i < W; ++i) exp2[i] = exp[i]; break; }
    case OP_NEG: { SV r = -a; rd<SV>(r, got); break; }
    case OP_PREINC: { V r = a; V q = ++r; rd<V>(r, got); rd<V>(q, got2); two = true; for (unsigned i = 0; i < W; ++i) exp2[i] = exp[i]; break; }
    case OP_POSTINC: { V r = a; V q = r++; rd<V>(r, got); rd<V>(q, got2); two = true; for (unsigned i = 0; i < W; ++i) exp2[i] = c->v[0][i] & m; break; }
    case OP_PREDEC: { V r = a; V q = --r; rd<V>(r, got); rd<V>(q, got2); two = true; for (unsigned i = 0; i < W; ++i) exp2[i] = exp[i]; break; }
    default: { V r = a; V q = r--; rd<V>(r, got); rd<V>(q, got2); two = true; for (unsigned i = 0; i < W; ++i) exp2[i] = c->v[0][i] & m; break; }
    }
    char tag[96];
    std::snprintf(tag, sizeof tag, "value%s", (o->classes & (1u << CL_OVERFLOW)) ? ":wraps" : "");
    if (!cmp_lanes(o, W, exp, got, nullptr, tag, OPS[op].name)) return;
    if (two && !cmp_lanes(o, W, exp2, got2, nullptr, "returned_value", "value returned by the operator")) return;
    for (unsigned i = 0; i < W; ++i) { o->expect[i] = exp[i]; o->actual[i] = got[i]; }
}

extern "C" void vp_run(const VpCase* c, VpOutcome* o) {
    switch (c->target) {
#define X(n) case T_##n: run<avel::n>(c, o); return;
        VP_INT_VECS(X)
#undef X
    default: o->status = 2; return;
    }
}

extern "C" void vp_enum(int tier, uint64_t seed, uint32_t shard, uint32_t nshards, void (*emit)(const VpCase*, void*), void* ctx) {
    uint32_t nt; const VpTarget* T = vp_targets(&nt);
    uint64_t job = 0;
    for (uint32_t t = 0; t < nt; ++t) {
        if (!T[t].present) continue;
        const unsigned W = T[t].width, B = T[t].bits;
        std::vector<uint64_t> L = vpl::int_lattice_small(B);
        if (B == 8) { L.clear(); for (unsigned x = 0; x < 256; ++x) L.push_back(x); }
        const size_t n = L.size();
        if ((job++ % nshards) == shard) {
            // usage forms over the lattice: every self-aliased form, every chain
            VpCase c; std::memset(&c, 0, sizeof c); c.target = t;
            for (unsigned k = 0; k < 12; ++k) {
                size_t fill = 0; uint64_t rot = seed + k;
                for (size_t i = 0; i < n; i += (B == 8 ? 1 : 1)) {
                    unsigned lane = (unsigned)((fill + rot) % W);
                    c.v[0][lane] = L[i]; c.v[1][lane] = L[(i * 7 + k + 3) % n]; c.v[2][lane] = L[(i * 13 + k * 5 + 1) % n];
                    if (++fill == W || i + 1 == n) { c.s[0] = k; c.op = OP_CHAIN; emit(&c, ctx); if (k < 6) { c.op = OP_SELF; emit(&c, ctx); } fill = 0; ++rot; }
                }
            }
        }
        for (unsigned op = 0; op < OP_META; ++op) {
            if ((job++ % nshards) != shard) continue;
            VpCase c; std::memset(&c, 0, sizeof c); c.target = t; c.op = op;
            size_t fill = 0; uint64_t rot = seed + op;
            const bool unary = op >= OP_NEG;
            for (size_t i = 0; i < n; ++i)
                for (size_t j = 0; j < (unary ? 1 : n); ++j) {
                    unsigned lane = (unsigned)((fill + rot) % W);
                    c.v[0][lane] = L[i]; c.v[1][lane] = unary ? 0 : L[j];
                    if (++fill == W) { emit(&c, ctx); fill = 0; ++rot; }
                }
            if (fill) emit(&c, ctx);
            // one-hot: the special pair in one lane, heterogeneous neighbours (lane independence)
            if (!unary && W > 1) {
                for (size_t i = 0; i < n; i += 3) {
                    for (unsigned lane = 0; lane < W; ++lane) c.v[0][lane] = L[(i * 7 + lane * 13) % n], c.v[1][lane] = L[(i * 11 + lane * 5 + 1) % n];
                    unsigned hot = (unsigned)((i + seed) % W);
                    c.v[0][hot] = L[i]; c.v[1][hot] = L[n - 1 - i];
                    emit(&c, ctx);
                }
            }
        }
    }
}

// thorough: all 2^32 pairs for the 16-bit types, executed in tight loops inside the check object
template<class V> static void sweep16(unsigned t, unsigned op, uint32_t shard, uint32_t nshards, void (*emit)(const VpCase*, void*), void* ctx, uint64_t* evals, uint64_t* lanes) {
    typedef typename V::scalar T;
    const unsigned W = V::width;
    VpCase c; std::memset(&c, 0, sizeof c); c.target = t; c.op = op;
    for (uint32_t a = shard; a < 65536; a += nshards) {
        for (uint32_t b0 = 0; b0 < 65536; b0 += W) {
            uint64_t av[VP_MAXL], bv[VP_MAXL], got[VP_MAXL];
            for (unsigned i = 0; i < W; ++i) { av[i] = (a + i * 257u) & 0xFFFF; bv[i] = (b0 + i) & 0xFFFF; }
            V x = mk<V>(av), y = mk<V>(bv);
            V r = op == OP_ADD ? x + y : (op == OP_SUB ? x - y : x * y);
            rd<V>(r, got);
            bool bad = false;
            for (unsigned i = 0; i < W; ++i) if (got[i] != ref<T>(op, av[i], bv[i])) bad = true;
            ++*evals; *lanes += W;
            if (bad) { for (unsigned i = 0; i < W; ++i) { c.v[0][i] = av[i]; c.v[1][i] = bv[i]; } emit(&c, ctx); return; }
        }
    }
}

extern "C" void vp_sweep(int tier, uint64_t, uint32_t shard, uint32_t nshards, void (*emit)(const VpCase*, void*), void* ctx, uint64_t* evals, uint64_t* lanes, char* d, size_t cap) {
    d[0] = 0;
    if (tier < 1) { std::snprintf(d, cap, "all 65536 operand pairs of both 8-bit element types for every operator form and width (enumerated in the deterministic phase)"); return; }
    for (unsigned op : {OP_ADD, OP_SUB, OP_MUL}) {
#define X(n) if (avel::n::width * 0 + sizeof(avel::n::scalar) == 2) sweep16<avel::n>(T_##n, op, shard, nshards, emit, ctx, evals, lanes);
        VP_INT_VECS(X)
#undef X
    }
    std::snprintf(d, cap, "all 65536 operand pairs of both 8-bit element types for every operator form and width;all 2^32 operand pairs of both 16-bit element types for + - * in every width (lane i carries (a+257i, b+i))");
}
