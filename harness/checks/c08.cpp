// C08: loads, stores, gathers, scatters and lane access move exactly the right lanes.
// C09 (-DVP_PROP_C09): memory operations never touch bytes outside the addressed elements: the same
// operations with the element range flush against PROT_NONE pages and wild indices in inactive lanes.
#define VP_CHECK_OBJECT
#include "../vp.hpp"
#include "../lattice.hpp"
#include <sys/mman.h>
#include <unistd.h>

using namespace vp;

enum { OP_LOAD_N, OP_LOAD_CT, OP_ALOAD_N, OP_ALOAD_CT, OP_STORE_N, OP_STORE_CT, OP_ASTORE_N, OP_ASTORE_CT,
       OP_GATHER_N, OP_GATHER_CT, OP_SCATTER_N, OP_SCATTER_CT, OP_EXTRACT, OP_INSERT, OP_TO_ARRAY, OP_FROM_ARRAY, OP_GATHER_FAR, OP_SCATTER_FAR, OP_STORE_RACE, OP_TYPED_LOAD_N, OP_TYPED_LOAD_CT, OP_TYPED_STORE_N, OP_TYPED_STORE_CT, OP_COUNT };
// v0 payload lanes (memory contents for loads / vector for stores), v1 indices; s0 = n, s1 = element offset, s2 = placement, s3 = inserted value / lane
static const VpOp OPS[] = {
    {"load_n", {VK_INT}, {SK_N, SK_OFF, SK_SMALL}, 3}, {"load_ct", {VK_INT}, {SK_N, SK_OFF, SK_SMALL}, 2},
    {"aligned_load_n", {VK_INT}, {SK_N, SK_OFF, SK_SMALL}, 2}, {"aligned_load_ct", {VK_INT}, {SK_N, SK_OFF, SK_SMALL}, 1},
    {"store_n", {VK_INT}, {SK_N, SK_OFF, SK_SMALL}, 3}, {"store_ct", {VK_INT}, {SK_N, SK_OFF, SK_SMALL}, 2},
    {"aligned_store_n", {VK_INT}, {SK_N, SK_OFF, SK_SMALL}, 2}, {"aligned_store_ct", {VK_INT}, {SK_N, SK_OFF, SK_SMALL}, 1},
    {"gather_n", {VK_INT, VK_IDX}, {SK_N, SK_OFF, SK_SMALL}, 3}, {"gather_ct", {VK_INT, VK_IDX}, {SK_N, SK_OFF, SK_SMALL}, 1},
    {"scatter_n", {VK_INT, VK_IDX}, {SK_N, SK_OFF, SK_SMALL}, 3}, {"scatter_ct", {VK_INT, VK_IDX}, {SK_N, SK_OFF, SK_SMALL}, 1},
    {"extract", {VK_INT}, {SK_LANE}, 1}, {"insert", {VK_INT}, {SK_LANE, SK_NONE, SK_NONE, SK_INTVAL}, 1}, {"to_array", {VK_INT}, {}, 1}, {"array_ctor", {VK_INT}, {SK_SMALL}, 2},
    {"gather_far_index", {VK_INT, VK_IDX}, {SK_N, SK_OFF, SK_SMALL}, 1}, {"scatter_far_index", {VK_INT, VK_IDX}, {SK_N, SK_OFF, SK_SMALL}, 1},
    // C09 only: a partial store repeated while a second thread owns (keeps rewriting and re-reading) the elements behind the addressed ones; s2 = form
    {"partial_store_beside_concurrent_writer", {VK_INT}, {SK_N, SK_OFF, SK_SMALL}, 1012},
    // C08 only: the memory is written / read through ordinary lvalues of the element type right before and after the call, inside one function
    // (fill a slot, load it, reuse the slot; store, then read the elements): what the optimiser may reorder if the library accesses the
    // elements through an incompatible type
    {"typed_fill_load_n_reuse", {VK_INT}, {SK_N}, 1}, {"typed_fill_load_ct_reuse", {VK_INT}, {SK_N}, 1}, {"store_n_then_typed_read", {VK_INT}, {SK_N}, 1}, {"store_ct_then_typed_read", {VK_INT}, {SK_N}, 1},
};
enum { CL_PARTIAL, CL_N_GT_W, CL_N_ZERO, CL_UNALIGNED, CL_NEG_INDEX, CL_FLUSH_END, CL_FLUSH_START, CL_WILD_INACTIVE, CL_PTR_IN_GUARD, CL_ORDINARY, CL_RACE };
static const char* const CLASSES[] = {"partial_0_lt_n_lt_width", "n_greater_than_width", "n_zero", "unaligned_address", "negative_index",
                                      "range_ends_at_guard_page", "range_starts_after_guard_page", "wild_index_in_inactive_lane", "n_zero_pointer_into_guard_page", "ordinary", "tail_owned_by_concurrent_writer"};

#ifdef VP_PROP_C09
extern "C" const char* vp_property(void) { return "C09"; }
extern "C" const char* vp_rule(void) {
    return "a case is one memory operation (load/store/aligned/gather/scatter, run-time or compile-time count) with the addressed element range flush against a PROT_NONE page "
           "(ending at a page end or starting at a page start), n=0 with the pointer inside the guard page, or wild indices in inactive gather/scatter lanes; any signal or any "
           "changed sentinel byte outside the addressed elements fails; a partial store is also repeated while a second thread keeps rewriting the elements behind the addressed ones and checks "
           "that none of its writes is ever undone (a store that reads and rewrites the whole block loses them); non-trivial = n < width with the tail in the guard page, n = 0, or an inactive wild index; distinct = hash of the Case";
}
#else
extern "C" const char* vp_property(void) { return "C08"; }
extern "C" const char* vp_rule(void) {
    return "a case is one memory or lane-access operation with its count n (0..width+2), element offset, payload and indices, checked against a byte-array memory model "
           "(loaded lanes, zero fill, exactly the written bytes, untouched sentinels); non-trivial = 0 < n < width, n > width, an unaligned address or a negative index; distinct = hash of the Case";
}
#endif
extern "C" const VpOp* vp_ops(uint32_t* n) { *n = OP_COUNT; return OPS; }
extern "C" const char* const* vp_class_names(uint32_t* n) { 
#ifdef VP_PROP_C09
    *n = 11;
#else
    *n = 10;
#endif
    return CLASSES; }
#define ALLCLS(c) true
VP_DEFINE_VECTOR_TARGETS(ALLCLS)

// ---- arena: [PROT_NONE][RW 2 pages][PROT_NONE] ----
static unsigned char* g_arena = nullptr; static size_t g_page = 4096;
static unsigned char* rw_begin() { return g_arena + g_page; }
static unsigned char* rw_end() { return g_arena + 3 * g_page; }
static void arena_init() {
    if (g_arena) return;
    g_page = (size_t)sysconf(_SC_PAGESIZE);
    void* p = mmap(nullptr, 4 * g_page, PROT_READ | PROT_WRITE, MAP_PRIVATE | MAP_ANONYMOUS, -1, 0);
    if (p == MAP_FAILED) { std::perror("mmap"); std::abort(); }
    g_arena = (unsigned char*)p;
    mprotect(g_arena, g_page, PROT_NONE);
    mprotect(g_arena + 3 * g_page, g_page, PROT_NONE);
}
static inline unsigned char sentinel(size_t i) { return (unsigned char)(0xA5 ^ (i * 131) ^ (i >> 8)); }
static void arena_fill() { unsigned char* b = rw_begin(); size_t n = 2 * g_page; for (size_t i = 0; i < n; ++i) b[i] = sentinel(i); }
// first byte of the RW region that differs from the sentinel outside [lo, hi); returns -1 if none
static long arena_dirty_outside(const unsigned char* lo, const unsigned char* hi) {
    unsigned char* b = rw_begin(); size_t n = 2 * g_page;
    for (size_t i = 0; i < n; ++i) { if (b + i >= lo && b + i < hi) continue; if (b[i] != sentinel(i)) return (long)i; }
    return -1;
}

// far-index arena for 64-bit indices: 32 GiB of reserved (PROT_NONE, never committed) address space with two accessible windows 2^32 elements
// of 8 bytes apart, so that an index of +-2^32+k is a legal element and an implementation that truncates indices to 32 bits reads the wrong one
static unsigned char* g_far = nullptr;
static const size_t FAR_WIN = 8192, FAR_DIST = (size_t)1 << 35;
static bool far_init() {
    if (g_far) return true;
    void* p = mmap(nullptr, FAR_DIST + 2 * FAR_WIN, PROT_NONE, MAP_PRIVATE | MAP_ANONYMOUS | MAP_NORESERVE, -1, 0);
    if (p == MAP_FAILED) return false;
    g_far = (unsigned char*)p;
    if (mprotect(g_far, FAR_WIN, PROT_READ | PROT_WRITE) || mprotect(g_far + FAR_DIST, FAR_WIN, PROT_READ | PROT_WRITE)) { g_far = nullptr; return false; }
    return true;
}

template<class V> struct IdxOf { typedef avel::Vector<typename avel::to_index_type<typename V::scalar>::type, V::width> type; };

template<class V> struct LoadCt { const typename V::scalar* p; V r; template<unsigned I> void at() { r = avel::load<V, I>(p); } };
template<class V> struct ALoadCt { const typename V::scalar* p; V r; template<unsigned I> void at() { r = avel::aligned_load<V, I>(p); } };
template<class V> struct StoreCt { typename V::scalar* p; V v; template<unsigned I> void at() { avel::store<I>(p, v); } };
template<class V> struct AStoreCt { typename V::scalar* p; V v; template<unsigned I> void at() { avel::aligned_store<I>(p, v); } };
template<class V, class IV> struct GatherCt { const typename V::scalar* p; IV idx; V r; template<unsigned I> void at() { r = avel::gather<V, I>(p, idx); } };
template<class V, class IV> struct ScatterCt { typename V::scalar* p; IV idx; V v; template<unsigned I> void at() { avel::scatter<I>(p, v, idx); } };
template<class V> struct ExtractAt { V v; uint64_t r; template<unsigned I> void at() { r = elem<typename V::scalar>::to_bits(avel::extract<I>(v)); } };
template<class V> struct InsertAt { V v, r; typename V::scalar x; template<unsigned I> void at() { r = avel::insert<I>(v, x); } };

template<class V, bool HasGS = (sizeof(typename V::scalar) >= 4)> struct GS {
    typedef typename V::scalar T;
    typedef typename IdxOf<V>::type IV;
    static void run(const VpCase* c, VpOutcome* o, unsigned n, unsigned place);
    static void far(const VpCase* c, VpOutcome* o, unsigned n);
};
template<class V> struct GS<V, false> { static void run(const VpCase*, VpOutcome* o, unsigned, unsigned) { o->status = 2; } static void far(const VpCase*, VpOutcome* o, unsigned) { o->status = 2; } };

#ifdef VP_PROP_C09
// ---- a second thread that owns the tail of the block ----
#include <pthread.h>
#include <signal.h>
#include <atomic>
struct Watcher {
    volatile unsigned char* tail; size_t len; unsigned iters;
    std::atomic<unsigned> started, finished, lost;
    unsigned char last; pthread_t th; bool pending;
};
static Watcher g_w;
static void* watcher_main(void*) {
    g_w.started.store(1, std::memory_order_release);
    unsigned char val = 0;
    for (unsigned k = 1; k <= g_w.iters; ++k) {
        val = (unsigned char)(k * 37u + 1u);
        for (size_t b = 0; b < g_w.len; ++b) g_w.tail[b] = val;
        for (int sp = 0; sp < (int)(k % 13); ++sp) __builtin_ia32_pause();
        for (size_t b = 0; b < g_w.len; ++b) if (g_w.tail[b] != val) { g_w.lost.fetch_add(1, std::memory_order_relaxed); break; }
    }
    g_w.last = val;
    g_w.finished.store(1, std::memory_order_release);
    return nullptr;
}
alignas(64) static unsigned char g_race_block[512];
template<class V> static void store_race(const VpCase* c, VpOutcome* o, unsigned n) {
    typedef typename V::scalar T;
    const unsigned W = V::width, ES = sizeof(T);
    if (W < 2) { o->status = 2; return; }
    n = 1 + n % (W - 1);                                  // 1 .. W-1: there is a tail
    const unsigned form = (unsigned)(c->s[2] < 0 ? -c->s[2] : c->s[2]) % 4;        // 0 store(p,v,n) 1 aligned_store(p,v,n) 2 store<N> 3 aligned_store<N>
    const bool aligned = (form & 1) != 0;
    const unsigned off = aligned ? 0 : ((unsigned)(c->s[1] < 0 ? -c->s[1] : c->s[1]) % 8) * ES;
    unsigned char* p = g_race_block + 128 + off;          // 64-byte aligned block (+ an element offset for the unaligned forms)
    uint64_t lanes[VP_MAXL], got[VP_MAXL], exp[VP_MAXL];
    for (unsigned i = 0; i < W; ++i) lanes[i] = c->v[0][i] & elem<T>::mask();
    V v = mk<V>(lanes);
    if (g_w.pending) { pthread_join(g_w.th, nullptr); g_w.pending = false; }      // left over from a Case that ended in a signal
    std::memset(g_race_block, 0x5A, sizeof g_race_block);
    g_w.tail = p + n * ES; g_w.len = (W - n) * ES; g_w.iters = 4000;
    g_w.started.store(0); g_w.finished.store(0); g_w.lost.store(0);
    sigset_t all, old; sigfillset(&all); pthread_sigmask(SIG_BLOCK, &all, &old);  // the second thread takes no signals: the guard and the watchdog belong to this one
    const int rc = pthread_create(&g_w.th, nullptr, watcher_main, nullptr);
    pthread_sigmask(SIG_SETMASK, &old, nullptr);
    if (rc != 0) { o->status = 2; return; }
    g_w.pending = true;
    o->classes |= 1u << CL_RACE | 1u << CL_PARTIAL; o->nontrivial = 1;
    while (!g_w.started.load(std::memory_order_acquire)) { }
    uint64_t stores = 0;
    do {
        switch (form) {
        case 0: avel::store((T*)p, v, n); break;
        case 1: avel::aligned_store((T*)p, v, n); break;
        case 2: { StoreCt<V> f; f.p = (T*)p; f.v = v; dispatch<W + 1>::go(n, f); break; }
        default: { AStoreCt<V> f; f.p = (T*)p; f.v = v; dispatch<W + 1>::go(n, f); break; }
        }
        ++stores;
    } while (!g_w.finished.load(std::memory_order_acquire));
    pthread_join(g_w.th, nullptr); g_w.pending = false;
    o->lanes_compared += W;
    const unsigned lost = g_w.lost.load();
    if (lost) { fail(o, -1, "concurrent_write_to_tail_undone", "%s with n=%u: %u of %u writes a second thread made to the elements behind the addressed ones were overwritten with stale data (%llu stores ran meanwhile)", OPS[c->op].name, n, lost, g_w.iters, (unsigned long long)stores); return; }
    for (size_t b = 0; b < g_w.len; ++b) if (g_w.tail[b] != g_w.last) { fail(o, -1, "concurrent_write_to_tail_undone:final", "the tail does not hold the second thread's last value after the run"); return; }
    for (unsigned i = 0; i < W; ++i) { exp[i] = i < n ? lanes[i] : 0; got[i] = 0; }
    for (unsigned i = 0; i < n; ++i) { T x; std::memcpy(&x, p + i * ES, ES); got[i] = elem<T>::to_bits(x); }
    cmp_lanes(o, W, exp, got, nullptr, "store_race:head", "stored elements");
}
#endif

#ifndef VP_PROP_C09
template<class V> struct TypedSlot { alignas(64) static typename V::scalar slot[V::width + 8]; };
template<class V> alignas(64) typename V::scalar TypedSlot<V>::slot[V::width + 8];
template<class V> __attribute__((noinline)) static V typed_fill_load_reuse(typename V::scalar* slot, unsigned n, const typename V::scalar* vals) {
    typedef typename V::scalar T;
    for (unsigned i = 0; i < V::width; ++i) slot[i] = vals[i];
    V v = avel::load<V>(slot, n);
    for (unsigned i = 0; i < V::width; ++i) slot[i] = T(77);
    return v;
}
template<class V> struct TypedLoadCt {
    typename V::scalar* slot; const typename V::scalar* vals; V r;
    template<unsigned I> __attribute__((noinline)) void at() {
        typedef typename V::scalar T;
        for (unsigned i = 0; i < V::width; ++i) slot[i] = vals[i];
        r = avel::load<V, I>(slot);
        for (unsigned i = 0; i < V::width; ++i) slot[i] = T(77);
    }
};
template<class V> __attribute__((noinline)) static void store_then_typed_read(typename V::scalar* slot, const V& v, unsigned n, typename V::scalar* out) {
    typedef typename V::scalar T;
    for (unsigned i = 0; i < V::width; ++i) slot[i] = T(55);
    avel::store(slot, v, n);
    for (unsigned i = 0; i < V::width; ++i) out[i] = slot[i];
}
template<class V> struct TypedStoreCt {
    typename V::scalar* slot; V v; typename V::scalar* out;
    template<unsigned I> __attribute__((noinline)) void at() {
        typedef typename V::scalar T;
        for (unsigned i = 0; i < V::width; ++i) slot[i] = T(55);
        avel::store<I>(slot, v);
        for (unsigned i = 0; i < V::width; ++i) out[i] = slot[i];
    }
};
template<class V> static void typed_ops(const VpCase* c, VpOutcome* o) {
    typedef typename V::scalar T;
    const unsigned W = V::width; const uint64_t m = elem<T>::mask();
    const unsigned op = c->op;
    const bool ct = op == OP_TYPED_LOAD_CT || op == OP_TYPED_STORE_CT;
    unsigned n = (unsigned)(c->s[0] < 0 ? -c->s[0] : c->s[0]) % (W + 3); if (ct && n > W) n = W;
    const unsigned cnt = n < W ? n : W;
    uint64_t lanes[VP_MAXL], got[VP_MAXL], exp[VP_MAXL]; T vals[VP_MAXL], out[VP_MAXL];
    for (unsigned i = 0; i < W; ++i) { lanes[i] = c->v[0][i] & m; vals[i] = elem<T>::from_bits(lanes[i]); }
    if (n > 0 && n < W) { o->classes |= 1u << CL_PARTIAL; o->nontrivial = 1; } else if (n > W) { o->classes |= 1u << CL_N_GT_W; o->nontrivial = 1; } else if (n == 0) { o->classes |= 1u << CL_N_ZERO; o->nontrivial = 1; } else o->classes |= 1u << CL_ORDINARY;
    T* slot = TypedSlot<V>::slot;
    if (op == OP_TYPED_LOAD_N || op == OP_TYPED_LOAD_CT) {
        V r;
        if (op == OP_TYPED_LOAD_N) r = typed_fill_load_reuse<V>(slot, n, vals);
        else { TypedLoadCt<V> f; f.slot = slot; f.vals = vals; dispatch<W + 1>::go(n, f); r = f.r; }
        rd<V>(r, got);
        for (unsigned i = 0; i < W; ++i) exp[i] = i < cnt ? lanes[i] : 0;
        cmp_lanes(o, W, exp, got, nullptr, "typed_fill_load_reuse", OPS[op].name);
    } else {
        V v = mk<V>(lanes);
        if (op == OP_TYPED_STORE_N) store_then_typed_read<V>(slot, v, n, out);
        else { TypedStoreCt<V> f; f.slot = slot; f.v = v; f.out = out; dispatch<W + 1>::go(n, f); }
        for (unsigned i = 0; i < W; ++i) { got[i] = elem<T>::to_bits(out[i]); exp[i] = i < cnt ? lanes[i] : elem<T>::to_bits(T(55)); }
        cmp_lanes(o, W, exp, got, nullptr, "store_then_typed_read", OPS[op].name);
    }
}
#endif

template<class V> static void run(const VpCase* c, VpOutcome* o) {
    typedef typename V::scalar T;
    const unsigned W = V::width, ES = sizeof(T);
    const uint64_t m = elem<T>::mask();
    arena_init();
    if (c->op >= OP_TYPED_LOAD_N) {
#ifndef VP_PROP_C09
        typed_ops<V>(c, o);
#else
        o->status = 2;
#endif
        return;
    }
    if (c->op == OP_STORE_RACE) {
#ifdef VP_PROP_C09
        store_race<V>(c, o, (unsigned)(c->s[0] < 0 ? -c->s[0] : c->s[0]));
#else
        o->status = 2;
#endif
        return;
    }
    const unsigned op = c->op;
    unsigned n = (unsigned)(c->s[0] < 0 ? -c->s[0] : c->s[0]) % (W + 3);
    const bool ct = (op == OP_LOAD_CT || op == OP_ALOAD_CT || op == OP_STORE_CT || op == OP_ASTORE_CT || op == OP_GATHER_CT || op == OP_SCATTER_CT);
    if (ct && n > W) n = W;        // the compile-time forms static_assert N <= width
    const unsigned cnt = n < W ? n : W;
    unsigned place = (unsigned)(c->s[2] < 0 ? -c->s[2] : c->s[2]) % 4;
#ifdef VP_PROP_C09
    if (place == 0) place = 1;     // C09: always next to a guard page
#else
    place = 0;                     // C08: in the middle of the sentinel buffer
#endif
    bool nt = false;
    auto cls = [&](unsigned k) { o->classes |= 1u << k; nt = true; };
    if (op <= OP_SCATTER_CT) {
        if (n > 0 && n < W) cls(CL_PARTIAL);
        if (n > W) cls(CL_N_GT_W);
        if (n == 0) cls(CL_N_ZERO);
    }
    uint64_t lanes[VP_MAXL], got[VP_MAXL], exp[VP_MAXL];
    for (unsigned i = 0; i < W; ++i) lanes[i] = c->v[0][i] & m;
    if (op == OP_GATHER_FAR || op == OP_SCATTER_FAR) {
#ifdef VP_PROP_C09
        o->status = 2; return;
#endif
        GS<V>::far(c, o, n); return;
    }
    if (op >= OP_EXTRACT) {
#ifdef VP_PROP_C09
        o->status = 2; return;
#endif
        V v = mk<V>(lanes);
        if (op == OP_EXTRACT) {
            unsigned I = (unsigned)(c->s[0] < 0 ? -c->s[0] : c->s[0]) % W;
            ExtractAt<V> f; f.v = v; f.r = 0; dispatch<W>::go(I, f);
            exp[0] = lanes[I]; got[0] = f.r; ++o->lanes_compared; o->expect[0] = exp[0]; o->actual[0] = got[0];
            if (exp[0] != got[0]) fail(o, (int)I, "extract", "extract<%u> returned 0x%llx, lane holds 0x%llx", I, (unsigned long long)got[0], (unsigned long long)exp[0]);
            if (I) o->nontrivial = 1;
        } else if (op == OP_INSERT) {
            unsigned I = (unsigned)(c->s[0] < 0 ? -c->s[0] : c->s[0]) % W;
            InsertAt<V> f; f.v = v; f.r = v; f.x = elem<T>::from_bits((uint64_t)c->s[3] & m); dispatch<W>::go(I, f);
            for (unsigned i = 0; i < W; ++i) exp[i] = lanes[i];
            exp[I] = (uint64_t)c->s[3] & m; rd<V>(f.r, got);
            if (I) o->nontrivial = 1;
            cmp_lanes(o, W, exp, got, nullptr, "insert", "insert<I>(v,x)");
        } else if (op == OP_TO_ARRAY) {
            auto arr = avel::to_array(v);
            for (unsigned i = 0; i < W; ++i) got[i] = elem<T>::to_bits(arr[i]);
            o->nontrivial = W > 1;
            cmp_lanes(o, W, lanes, got, nullptr, "to_array", "to_array(v)");
        } else {
            // the source array sits directly in front of a PROT_NONE page (an over-read faults) or one element before that (alignof(std::array<T,N>)
            // is alignof(T), so an aligned full-width load faults on it)
            typedef std::array<T, W> AT;
            arena_fill();
            AT* ap = reinterpret_cast<AT*>(rw_end() - sizeof(AT) - ((c->s[0] & 1) ? sizeof(T) : 0));
            for (unsigned i = 0; i < W; ++i) (*ap)[i] = elem<T>::from_bits(lanes[i]);
            V r{*ap}; rd<V>(r, got);
            o->nontrivial = W > 1;
            cmp_lanes(o, W, lanes, got, nullptr, "array_ctor", "Vector(array)");
        }
        return;
    }
    if (op >= OP_GATHER_N) { GS<V>::run(c, o, n, place); return; }
    // ---- contiguous loads / stores ----
    const bool aligned = (op == OP_ALOAD_N || op == OP_ALOAD_CT || op == OP_ASTORE_N || op == OP_ASTORE_CT);
    const size_t AL = alignof(V);
    unsigned char* p;
    unsigned off = (unsigned)(c->s[1] < 0 ? -c->s[1] : c->s[1]) % 64;
    if (place == 0) {
        p = rw_begin() + g_page - 256 + (aligned ? (off * ES / AL) * AL : off * ES);   // straddles the two RW pages for larger offsets
        if (!aligned && ((uintptr_t)p % AL)) cls(CL_UNALIGNED);
    } else if (place == 1 || place == 3) {
        // element range [p, p + cnt*ES) ends exactly at the end of the RW region (aligned forms: the nearest aligned address at or below)
        p = rw_end() - cnt * ES;
        if (aligned) p = (unsigned char*)((uintptr_t)p / AL * AL);
        if (p + cnt * ES == rw_end()) { if (cnt < W || !aligned) cls(CL_FLUSH_END); }
        if (n == 0 && place == 3 && !aligned) { p = rw_end() + (off % 8) * ES; cls(CL_PTR_IN_GUARD); }     // pointer inside the guard page, no access allowed at all
        if (n == 0 && place == 3 && aligned) { p = rw_end(); cls(CL_PTR_IN_GUARD); }
    } else {
        p = rw_begin();   // range starts exactly at the first accessible byte
        cls(CL_FLUSH_START);
        if (n == 0 && !aligned) { p = rw_begin() - ES; cls(CL_PTR_IN_GUARD); }
    }
    arena_fill();
    const bool is_load = op <= OP_ALOAD_CT;
    if (is_load) {
        for (unsigned i = 0; i < cnt; ++i) { T x = elem<T>::from_bits(lanes[i]); std::memcpy(p + i * ES, &x, ES); }
        V r;
        switch (op) {
        case OP_LOAD_N: r = avel::load<V>((const T*)p, n); break;
        case OP_ALOAD_N: r = avel::aligned_load<V>((const T*)p, n); break;
        case OP_LOAD_CT: { LoadCt<V> f; f.p = (const T*)p; dispatch<W + 1>::go(n, f); r = f.r; break; }
        default: { ALoadCt<V> f; f.p = (const T*)p; dispatch<W + 1>::go(n, f); r = f.r; break; }
        }
        rd<V>(r, got);
        for (unsigned i = 0; i < W; ++i) exp[i] = i < cnt ? lanes[i] : 0;
        if (nt) o->nontrivial = 1; else o->classes |= 1u << CL_ORDINARY;
        char tag[96]; std::snprintf(tag, sizeof tag, "%s:n%s", "load", n == 0 ? "=0" : n < W ? "<w" : n == W ? "=w" : ">w");
        if (!cmp_lanes(o, W, exp, got, nullptr, tag, OPS[op].name)) return;
        long d = arena_dirty_outside(p, p + cnt * ES);
        if (d >= 0) fail(o, -1, "load_wrote_memory", "%s modified memory at region offset %ld", OPS[op].name, d);
        return;
    }
    V v = mk<V>(lanes);
    switch (op) {
    case OP_STORE_N: avel::store((T*)p, v, n); break;
    case OP_ASTORE_N: avel::aligned_store((T*)p, v, n); break;
    case OP_STORE_CT: { StoreCt<V> f; f.p = (T*)p; f.v = v; dispatch<W + 1>::go(n, f); break; }
    default: { AStoreCt<V> f; f.p = (T*)p; f.v = v; dispatch<W + 1>::go(n, f); break; }
    }
    if (nt) o->nontrivial = 1; else o->classes |= 1u << CL_ORDINARY;
    for (unsigned i = 0; i < W; ++i) { exp[i] = i < cnt ? lanes[i] : 0; got[i] = 0; }
    for (unsigned i = 0; i < cnt; ++i) { T x; std::memcpy(&x, p + i * ES, ES); got[i] = elem<T>::to_bits(x); }
    char tag[96]; std::snprintf(tag, sizeof tag, "%s:n%s", "store", n == 0 ? "=0" : n < W ? "<w" : n == W ? "=w" : ">w");
    if (!cmp_lanes(o, W, exp, got, nullptr, tag, OPS[op].name)) return;
    long d = arena_dirty_outside(p, p + cnt * ES);
    if (d >= 0) { std::snprintf(tag, sizeof tag, "store_outside:n%s", n == 0 ? "=0" : n < W ? "<w" : n == W ? "=w" : ">w"); fail(o, -1, tag, "%s wrote outside the %u addressed elements (region offset %ld, p at %ld)", OPS[op].name, cnt, d, (long)(p - rw_begin())); }
}

template<class V, bool H> void GS<V, H>::run(const VpCase* c, VpOutcome* o, unsigned n, unsigned place) {
    const unsigned W = V::width, ES = sizeof(T);
    const uint64_t m = elem<T>::mask();
    const unsigned op = c->op;
    const unsigned cnt = n < W ? n : W;
    typedef typename IV::scalar IT;
    bool nt = (n > 0 && n < W) || n > W || n == 0;
    // base pointer: middle of the RW region (C08) or near its end / start (C09)
    T* base; long lo, hi;   // allowed index range [lo, hi] relative to base, in elements
    const long total = (long)(2 * g_page / ES);
    long pos = place == 0 ? total / 2 : (place == 2 ? 8 : total - 8);
    base = (T*)rw_begin() + pos; lo = -pos; hi = total - 1 - pos;
    long idx[VP_MAXL]; bool used_neg = false, wild = false;
    // active indices: the generated small index, folded into [lo, hi], made pairwise distinct by linear probing
    for (unsigned i = 0; i < W; ++i) {
        long g = (long)(int64_t)c->v[1][i];
        if (g < -64 || g > 64) g = g % 61;
        if (g < lo) g = lo + ((-g) % 5); if (g > hi) g = hi - (g % 5);
        if (i < cnt) {
            bool clash = true; int guard = 0;
            while (clash && guard++ < 400) { clash = false; for (unsigned j = 0; j < i && j < cnt; ++j) if (idx[j] == g) { clash = true; g = (g + 1 > hi) ? lo : g + 1; } }
            if (g < 0) used_neg = true;
        } else {
#ifdef VP_PROP_C09
            // inactive lanes: wild indices (into the guard pages, far away, extreme values)
            switch ((i + (unsigned)c->s[1]) % 5) {
            case 0: g = hi + 1 + (long)(i % 7); break;                 // first elements of the trailing guard page
            case 1: g = lo - 1 - (long)(i % 7); break;                 // last elements of the leading guard page
            case 2: g = sizeof(IT) == 4 ? 0x7FFFFFFFl : 0x7FFFFFFFFFFFFFFl; break;
            case 3: g = sizeof(IT) == 4 ? -0x7FFFFFFFl - 1 : -0x7FFFFFFFFFFFFFFl; break;
            default: g = hi + (long)(g_page / ES) + 3; break;
            }
            wild = true;
#endif
        }
        idx[i] = g;
    }
    if (used_neg) { o->classes |= 1u << CL_NEG_INDEX; nt = true; }
    if (wild) { o->classes |= 1u << CL_WILD_INACTIVE; nt = true; }
    if (n > 0 && n < W) o->classes |= 1u << CL_PARTIAL; if (n > W) o->classes |= 1u << CL_N_GT_W; if (n == 0) o->classes |= 1u << CL_N_ZERO;
    if (place == 1 || place == 3) o->classes |= 1u << CL_FLUSH_END; if (place == 2) o->classes |= 1u << CL_FLUSH_START;
    if (nt) o->nontrivial = 1; else o->classes |= 1u << CL_ORDINARY;
    uint64_t il[VP_MAXL], lanes[VP_MAXL], got[VP_MAXL], exp[VP_MAXL];
    for (unsigned i = 0; i < W; ++i) { il[i] = (uint64_t)(int64_t)idx[i] & elem<IT>::mask(); lanes[i] = c->v[0][i] & m; }
    IV iv = mk<IV>(il);
    arena_fill();
    if (op == OP_GATHER_N || op == OP_GATHER_CT) {
        for (unsigned i = 0; i < cnt; ++i) { T x = elem<T>::from_bits(lanes[i]); std::memcpy(base + idx[i], &x, ES); }
        V r;
        if (op == OP_GATHER_N) r = avel::gather<V>((const T*)base, iv, n);
        else { GatherCt<V, IV> f; f.p = (const T*)base; f.idx = iv; dispatch<W + 1>::go(n, f); r = f.r; }
        rd<V>(r, got);
        for (unsigned i = 0; i < W; ++i) exp[i] = i < cnt ? lanes[i] : 0;
        char tag[96]; std::snprintf(tag, sizeof tag, "gather:n%s", n == 0 ? "=0" : n < W ? "<w" : n == W ? "=w" : ">w");
        cmp_lanes(o, W, exp, got, nullptr, tag, OPS[op].name);
        return;
    }
    V v = mk<V>(lanes);
    if (op == OP_SCATTER_N) avel::scatter(base, v, iv, n);
    else { ScatterCt<V, IV> f; f.p = base; f.idx = iv; f.v = v; dispatch<W + 1>::go(n, f); }
    for (unsigned i = 0; i < W; ++i) { exp[i] = i < cnt ? lanes[i] : 0; got[i] = 0; }
    for (unsigned i = 0; i < cnt; ++i) { T x; std::memcpy(&x, base + idx[i], ES); got[i] = elem<T>::to_bits(x); }
    char tag[96]; std::snprintf(tag, sizeof tag, "scatter:n%s", n == 0 ? "=0" : n < W ? "<w" : n == W ? "=w" : ">w");
    if (!cmp_lanes(o, W, exp, got, nullptr, tag, OPS[op].name)) return;
    // nothing else may have changed: restore the written elements to their sentinels and scan
    for (unsigned i = 0; i < cnt; ++i) { unsigned char* q = (unsigned char*)(base + idx[i]); for (unsigned k = 0; k < ES; ++k) q[k] = sentinel((size_t)(q + k - rw_begin())); }
    long d = arena_dirty_outside(nullptr, nullptr);
    if (d >= 0) fail(o, -1, "scatter_outside", "%s wrote outside the %u addressed elements (region offset %ld)", OPS[op].name, cnt, d);
}

template<class V, bool H> void GS<V, H>::far(const VpCase* c, VpOutcome* o, unsigned n) {
    const unsigned W = V::width;
    if (sizeof(T) != 8 || !far_init()) { o->status = 2; return; }
    typedef typename IV::scalar IT;
    const unsigned cnt = n < W ? n : W;
    const long per = (long)(FAR_WIN / sizeof(T));             // elements per window
    const long dist = (long)(FAR_DIST / sizeof(T));           // 2^32 elements
    const bool base_hi = (c->s[1] & 1);                       // base pointer in the upper or the lower window
    T* lo_win = (T*)g_far; T* hi_win = (T*)(g_far + FAR_DIST);
    T* base = (base_hi ? hi_win : lo_win) + per / 2;
    long idx[VP_MAXL]; uint64_t il[VP_MAXL], lanes[VP_MAXL], got[VP_MAXL], exp[VP_MAXL];
    for (unsigned i = 0; i < W; ++i) {
        long k = (long)((i * 7 + (unsigned)c->s[1]) % (per / 2 - 1)) - (long)(per / 4);    // distinct small offsets inside a window
        bool other = ((i + (unsigned)(c->s[1] >> 1)) & 1) == 0;                             // alternate lanes address the other window: index +-2^32 + k
        idx[i] = k + (other ? (base_hi ? -dist : dist) : 0);
        il[i] = (uint64_t)(int64_t)idx[i]; lanes[i] = c->v[0][i] & elem<T>::mask();
    }
    o->classes |= 1u << CL_NEG_INDEX; o->nontrivial = 1;
    if (n > 0 && n < W) o->classes |= 1u << CL_PARTIAL; if (n > W) o->classes |= 1u << CL_N_GT_W; if (n == 0) o->classes |= 1u << CL_N_ZERO;
    std::memset(lo_win, 0x6B, FAR_WIN); std::memset(hi_win, 0x6B, FAR_WIN);
    IV iv = mk<IV>(il);
    if (c->op == OP_GATHER_FAR) {
        for (unsigned i = 0; i < cnt; ++i) { T x = elem<T>::from_bits(lanes[i]); std::memcpy(base + idx[i], &x, sizeof(T)); }
        V r = avel::gather<V>((const T*)base, iv, n); rd<V>(r, got);
        for (unsigned i = 0; i < W; ++i) exp[i] = i < cnt ? lanes[i] : 0;
        cmp_lanes(o, W, exp, got, nullptr, "gather:far_index", "gather with indices of magnitude 2^32");
        return;
    }
    V v = mk<V>(lanes);
    avel::scatter(base, v, iv, n);
    for (unsigned i = 0; i < W; ++i) { exp[i] = i < cnt ? lanes[i] : 0; got[i] = 0; }
    for (unsigned i = 0; i < cnt; ++i) { T x; std::memcpy(&x, base + idx[i], sizeof(T)); got[i] = elem<T>::to_bits(x); std::memset(base + idx[i], 0x6B, sizeof(T)); }
    if (!cmp_lanes(o, W, exp, got, nullptr, "scatter:far_index", "scatter with indices of magnitude 2^32")) return;
    for (size_t k = 0; k < FAR_WIN; ++k) if (((unsigned char*)lo_win)[k] != 0x6B || ((unsigned char*)hi_win)[k] != 0x6B) { fail(o, -1, "scatter_outside:far_index", "scatter with far indices wrote outside the addressed elements (window byte %zu)", k); return; }
}

extern "C" void vp_run(const VpCase* c, VpOutcome* o) {
    switch (c->target) {
#define X(n) case T_##n: run<avel::n>(c, o); return;
        VP_ALL_VECS(X)
#undef X
    default: o->status = 2; return;
    }
}

extern "C" void vp_enum(int tier, uint64_t seed, uint32_t shard, uint32_t nshards, void (*emit)(const VpCase*, void*), void* ctx) {
    uint32_t nt; const VpTarget* T = vp_targets(&nt);
    uint64_t job = 0;
    for (uint32_t t = 0; t < nt; ++t) {
        if (!T[t].present) continue;
        if ((job++ % nshards) != shard) continue;
        const unsigned W = T[t].width, B = T[t].bits;
        const uint64_t m = B == 64 ? ~0ull : ((1ull << B) - 1);
        for (unsigned op = 0; op < OP_COUNT; ++op) {
            VpCase c; std::memset(&c, 0, sizeof c); c.target = t; c.op = op;
            // payload with all-distinct bytes so that a misplaced lane is visible
            for (unsigned i = 0; i < W; ++i) { uint64_t x = 0; for (unsigned k = 0; k < B / 8; ++k) x |= (uint64_t)((i * (B / 8) + k + 1 + seed * 16) & 0xFF) << (8 * k); c.v[0][i] = x & m; }
            if (op == OP_GATHER_FAR || op == OP_SCATTER_FAR) {
                if (B != 64) continue;
                for (unsigned n = 0; n <= W + 1; ++n) for (unsigned v = 0; v < 8; ++v) { c.s[0] = n; c.s[1] = v; emit(&c, ctx); }
                continue;
            }
            if (op >= OP_TYPED_LOAD_N) {
#ifndef VP_PROP_C09
                for (unsigned n = 0; n <= W + 2; ++n) for (unsigned rep = 0; rep < 3; ++rep) { c.s[0] = n; for (unsigned i = 0; i < W; ++i) c.v[0][i] = (c.v[0][i] * 0x9E3779B97F4A7C15ull + rep + n) & m; emit(&c, ctx); }
#endif
                continue;
            }
            if (op == OP_STORE_RACE) {
#ifdef VP_PROP_C09
                if (W < 2) continue;
                // n = 1, the middle and width-1, each store form, the unaligned forms also at an odd element offset
                const unsigned ns[3] = {0, W / 2 - 1, W - 2};     // store_race maps s0 to 1 + s0 % (W-1)
                for (unsigned k = 0; k < 3; ++k) { if (k && ns[k] == ns[k - 1]) continue; for (unsigned form = 0; form < 4; ++form) for (unsigned off = 0; off < ((form & 1) ? 1u : 2u); ++off) { c.s[0] = ns[k]; c.s[1] = off * 3; c.s[2] = form; emit(&c, ctx); } }
#endif
                continue;
            }
            if (op >= OP_EXTRACT) {
                for (unsigned I = 0; I < W; ++I) { c.s[0] = I; c.s[3] = (int64_t)(0xC3C3C3C3C3C3C3C3ull & m); emit(&c, ctx); if (op >= OP_TO_ARRAY && I >= 1) break; }
                continue;
            }
            for (unsigned n = 0; n <= W + 2; ++n)
                for (unsigned place = 0; place < 4; ++place) {
#ifdef VP_PROP_C09
                    if (place == 0) continue;
                    const unsigned noff = 2;
#else
                    if (place != 0) continue;
                    const unsigned noff = (tier == 0 && W >= 32) ? 16 : 64;
#endif
                    for (unsigned off = 0; off < noff; ++off) {
                        c.s[0] = n; c.s[1] = off; c.s[2] = place;
                        for (unsigned i = 0; i < W; ++i) c.v[1][i] = (uint64_t)(int64_t)((int)((i * 5 + off * 3) % 41) - 20);
                        emit(&c, ctx);
                    }
                }
        }
    }
}

extern "C" void vp_sweep(int tier, uint64_t, uint32_t, uint32_t, void (*)(const VpCase*, void*), void*, uint64_t*, uint64_t*, char* d, size_t cap) {
#ifdef VP_PROP_C09
    std::snprintf(d, cap, "every n in 0..width+2 for every load/store/gather/scatter form of every vector type, with the element range ending at a page end, starting at a page start, and n=0 with the pointer inside the guard page");
#else
    std::snprintf(d, cap, "every n in 0..width+2 x every element offset in a 64-element window for every load/store/gather/scatter form, every lane index for extract/insert, of every vector type");
#endif
}
