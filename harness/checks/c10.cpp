// C10: float + - * / and sqrt are the correctly rounded IEEE-754 operations per lane, in all four rounding modes.
#define VP_CHECK_OBJECT
#include "../fpcommon.hpp"
#include "../lattice.hpp"

using namespace vp;

enum { OP_ADD, OP_SUB, OP_MUL, OP_DIV, OP_ADD_A, OP_SUB_A, OP_MUL_A, OP_DIV_A, OP_PREINC, OP_POSTINC, OP_PREDEC, OP_POSTDEC, OP_NEG, OP_SQRT, OP_SC_SQRT, OP_MUL_ADD_SEQ, OP_MUL_SUB_SEQ, OP_MULA_ADDA_SEQ, OP_USAGE, OP_LITERAL, OP_COUNT };
static const VpOp OPS[] = {
    {"add", {VK_FLT, VK_FLT_REL}, {SK_SMALL}, 2}, {"sub", {VK_FLT, VK_FLT_REL}, {SK_SMALL}, 2}, {"mul", {VK_FLT, VK_FLT_REL}, {SK_SMALL}, 2}, {"div", {VK_FLT, VK_FLT_REL}, {SK_SMALL}, 2},
    {"add_assign", {VK_FLT, VK_FLT_REL}, {SK_SMALL}, 1}, {"sub_assign", {VK_FLT, VK_FLT_REL}, {SK_SMALL}, 1}, {"mul_assign", {VK_FLT, VK_FLT_REL}, {SK_SMALL}, 1}, {"div_assign", {VK_FLT, VK_FLT_REL}, {SK_SMALL}, 1},
    {"preinc", {VK_FLT}, {SK_SMALL}, 1}, {"postinc", {VK_FLT}, {SK_SMALL}, 1}, {"predec", {VK_FLT}, {SK_SMALL}, 1}, {"postdec", {VK_FLT}, {SK_SMALL}, 1},
    {"unary_minus", {VK_FLT}, {SK_SMALL}, 1}, {"sqrt", {VK_FLT}, {SK_SMALL}, 2}, {"scalar_sqrt", {VK_FLT}, {SK_SMALL}, 1},
    // two operators in one expression: each rounds on its own (a product feeding a sum is two IEEE operations, never one fused multiply-add)
    {"mul_then_add", {VK_FLT, VK_FLT_REL, VK_FLT_REL}, {SK_SMALL}, 2}, {"mul_then_sub", {VK_FLT, VK_FLT_REL, VK_FLT_REL}, {SK_SMALL}, 1}, {"mul_assign_then_add_assign", {VK_FLT, VK_FLT_REL, VK_FLT_REL}, {SK_SMALL}, 1},
    // usage forms (s0 / 4 selects): x += x, x -= x, x *= x, x /= x, and the returned reference used as an lvalue: (x *= b) += c, (x += b) /= c, ++(++x), (--x) += b
    {"aliased_and_chained_forms", {VK_FLT, VK_FLT_REL, VK_FLT_REL}, {SK_SMALL}, 1},
    // one operand is a literal the optimiser can see (x / V{3}, x * V{0.1}, V{10} / x, x /= V{7} ...): s1 selects literal and form
    {"literal_operand", {VK_FLT}, {SK_SMALL, SK_OFF}, 2},
};
enum { CL_INEXACT, CL_ZERO, CL_SUBNORMAL, CL_INF, CL_NAN, CL_OVERFLOW, CL_UNDERFLOW, CL_NON_NEAREST_MODE, CL_ORDINARY, CL_FUSED_DIFFERS };
static const char* const CLASSES[] = {"inexact_result", "zero_operand_or_result", "subnormal_operand_or_result", "infinite_operand", "nan_operand", "overflow_to_infinity",
                                      "underflow_result", "directed_rounding_mode", "ordinary", "fused_multiply_add_would_differ"};
extern "C" const char* vp_property(void) { return "C10"; }
extern "C" const VpOp* vp_ops(uint32_t* n) { *n = OP_COUNT; return OPS; }
extern "C" const char* const* vp_class_names(uint32_t* n) { *n = 10; return CLASSES; }
extern "C" const char* vp_rule(void) {
    return "a case is an operand vector (pair), an operator form and one of the four rounding modes; non-trivial = some lane whose exact result is inexact "
           "(the rounding mode matters) or involves a zero, subnormal, infinity, NaN, overflow or underflow, or (two-operator sequences) a triple for which a fused multiply-add would give another result; distinct = distinct hash of the Case";
}
#define FLTCLS(c) ((c) == 2)
VP_DEFINE_VECTOR_TARGETS(FLTCLS)

// the AVEL call sits in noinline functions taking operands through memory, so no FP operation can move across the mode change
template<class V> __attribute__((noinline)) static void do_seq(unsigned op, const V* a, const V* b, const V* c, V* r) {
    switch (op) {
    case OP_MUL_ADD_SEQ: *r = *a * *b + *c; break;
    case OP_MUL_SUB_SEQ: *r = *a * *b - *c; break;
    case OP_MULA_ADDA_SEQ: { V t = *a; t *= *b; t += *c; *r = t; break; }
    default: break;
    }
}
#define VP_LITERALS(X) X(0, 3) X(1, 5) X(2, 6) X(3, 7) X(4, 9) X(5, 10) X(6, 100) X(7, 0.1) X(8, 1e10) X(9, 0.3) X(10, 1.5) X(11, 1e-3) X(12, 255) X(13, 2) X(14, 0.5) X(15, 1)
enum { N_LITERALS = 16 };
template<class T> static uint64_t literal_bits(unsigned i) {
    switch (i) {
#define X(k, L) case k: { volatile T v = T(L); return elem<T>::to_bits(v); }
        VP_LITERALS(X)
#undef X
    default: return 0;
    }
}
template<class V> __attribute__((noinline)) static void do_literal(unsigned sel, const V* a, V* r) {
    typedef typename V::scalar T;
    switch (sel) {
#define X(k, L) case 6 * k + 0: *r = *a / V{T(L)}; break; case 6 * k + 1: *r = *a * V{T(L)}; break; case 6 * k + 2: *r = V{T(L)} / *a; break; \
                case 6 * k + 3: { V t = *a; t /= V{T(L)}; *r = t; break; } case 6 * k + 4: *r = *a + V{T(L)}; break; case 6 * k + 5: *r = V{T(L)} - *a; break;
        VP_LITERALS(X)
#undef X
    default: *r = *a; break;
    }
}
template<class V> __attribute__((noinline)) static void do_usage(unsigned form, const V* a, const V* b, const V* c, V* r) {
    V x = *a;
    switch (form) {
    case 0: x += x; break; case 1: x -= x; break; case 2: x *= x; break; case 3: x /= x; break;
    case 4: (x *= *b) += *c; break; case 5: (x += *b) /= *c; break;
    case 6: ++(++x); break; default: (--x) += *b; break;
    }
    *r = x;
}
template<class V> __attribute__((noinline)) static void do_op(unsigned op, const V* a, const V* b, V* r, V* r2) {
    switch (op) {
    case OP_ADD: *r = *a + *b; break; case OP_SUB: *r = *a - *b; break; case OP_MUL: *r = *a * *b; break; case OP_DIV: *r = *a / *b; break;
    case OP_ADD_A: { V t = *a; t += *b; *r = t; break; } case OP_SUB_A: { V t = *a; t -= *b; *r = t; break; }
    case OP_MUL_A: { V t = *a; t *= *b; *r = t; break; } case OP_DIV_A: { V t = *a; t /= *b; *r = t; break; }
    case OP_PREINC: { V t = *a; *r2 = ++t; *r = t; break; } case OP_POSTINC: { V t = *a; *r2 = t++; *r = t; break; }
    case OP_PREDEC: { V t = *a; *r2 = --t; *r = t; break; } case OP_POSTDEC: { V t = *a; *r2 = t--; *r = t; break; }
    case OP_NEG: *r = -*a; break;
    default: *r = avel::sqrt(*a); break;
    }
}
template<class T> __attribute__((noinline)) static void do_scalar_sqrt(const T* a, T* r) { *r = avel::sqrt(*a); }

template<class V> static void run_seq(const VpCase* c, VpOutcome* o, int mode, const uint64_t* al, const uint64_t* bl) {
    typedef typename V::scalar T;
    typedef FB<T> F;
    const unsigned W = V::width, op = c->op;
    uint64_t cl[VP_MAXL], exp[VP_MAXL], got[VP_MAXL], fused[VP_MAXL];
    for (unsigned i = 0; i < W; ++i) cl[i] = c->v[2][i] & F::mask();
    V a = mk<V>(al), b = mk<V>(bl), cc = mk<V>(cl), r = a;
    FpEnv before, after;
    {
        RoundGuard g(mode);
        before = FpEnv::take();
        poison_below(al[0] ^ op);
        const unsigned form = (unsigned)(((c->s[0] < 0 ? -c->s[0] : c->s[0]) / 4) % 8);
        const unsigned sel = (unsigned)((c->s[1] < 0 ? -c->s[1] : c->s[1]) % (6 * N_LITERALS));
        if (op == OP_LITERAL) do_literal<V>(sel, &a, &r); else if (op == OP_USAGE) do_usage<V>(form, &a, &b, &cc, &r); else do_seq<V>(op, &a, &b, &cc, &r);
        rd<V>(r, got);
        after = FpEnv::take();
        for (unsigned i = 0; i < W; ++i) {
            if (op == OP_LITERAL) {
                const uint64_t L = literal_bits<T>(sel / 6);
                switch (sel % 6) {
                case 0: case 3: exp[i] = Ref<T>::bin(R_DIV, al[i], L); break; case 1: exp[i] = Ref<T>::bin(R_MUL, al[i], L); break; case 2: exp[i] = Ref<T>::bin(R_DIV, L, al[i]); break;
                case 4: exp[i] = Ref<T>::bin(R_ADD, al[i], L); break; default: exp[i] = Ref<T>::bin(R_SUB, L, al[i]); break;
                }
                fused[i] = exp[i];
                continue;
            }
            if (op == OP_USAGE) {
                switch (form) {
                case 0: exp[i] = Ref<T>::bin(R_ADD, al[i], al[i]); break; case 1: exp[i] = Ref<T>::bin(R_SUB, al[i], al[i]); break;
                case 2: exp[i] = Ref<T>::bin(R_MUL, al[i], al[i]); break; case 3: exp[i] = Ref<T>::bin(R_DIV, al[i], al[i]); break;
                case 4: exp[i] = Ref<T>::bin(R_ADD, Ref<T>::bin(R_MUL, al[i], bl[i]), cl[i]); break;
                case 5: exp[i] = Ref<T>::bin(R_DIV, Ref<T>::bin(R_ADD, al[i], bl[i]), cl[i]); break;
                case 6: exp[i] = Ref<T>::bin(R_ADD, Ref<T>::bin(R_ADD, al[i], elem<T>::to_bits(T(1))), elem<T>::to_bits(T(1))); break;
                default: exp[i] = Ref<T>::bin(R_ADD, Ref<T>::bin(R_SUB, al[i], elem<T>::to_bits(T(1))), bl[i]); break;
                }
                fused[i] = exp[i];
                continue;
            }
            const uint64_t p = Ref<T>::bin(R_MUL, al[i], bl[i]);
            exp[i] = Ref<T>::bin(op == OP_MUL_SUB_SEQ ? R_SUB : R_ADD, p, cl[i]);
            fused[i] = Ref<T>::fma(al[i], bl[i], op == OP_MUL_SUB_SEQ ? (cl[i] ^ F::sgn()) : cl[i]);
        }
    }
    bool nt = mode != 0;
    if (mode != 0) o->classes |= 1u << CL_NON_NEAREST_MODE;
    for (unsigned i = 0; i < W; ++i) {
        auto cls = [&](unsigned k) { o->classes |= 1u << k; nt = true; };
        if (!F::isnan(exp[i]) && fused[i] != exp[i]) cls(CL_FUSED_DIFFERS);
        if (F::isnan(al[i]) || F::isnan(bl[i]) || F::isnan(cl[i])) cls(CL_NAN);
        if (F::isinf(al[i]) || F::isinf(bl[i]) || F::isinf(cl[i])) cls(CL_INF);
        if (F::issub(al[i]) || F::issub(bl[i]) || F::issub(cl[i])) cls(CL_SUBNORMAL);
        if (F::iszero(exp[i])) cls(CL_ZERO);
        if (F::isnan(exp[i]) && F::isnan(got[i])) got[i] = exp[i];
    }
    if (nt) o->nontrivial = 1; else o->classes |= 1u << CL_ORDINARY;
    if (!before.same(after)) { fail(o, -1, "fp_environment_changed", "%s changed the FP environment", OPS[op].name); return; }
    char tag[96]; std::snprintf(tag, sizeof tag, "%s:mode%d", op == OP_LITERAL ? "literal_operand" : op == OP_USAGE ? "usage_form" : "two_roundings", mode);
    cmp_lanes(o, W, exp, got, nullptr, tag, OPS[op].name);
}

template<class V> static void run(const VpCase* c, VpOutcome* o) {
    typedef typename V::scalar T;
    typedef FB<T> F;
    const unsigned W = V::width;
    const unsigned op = c->op;
    const int mode = (int)((c->s[0] < 0 ? -c->s[0] : c->s[0]) % 4);
    if (op == OP_SC_SQRT && W != 1) { o->status = 2; return; }
    uint64_t al[VP_MAXL], bl[VP_MAXL], exp[VP_MAXL], exp2[VP_MAXL], got[VP_MAXL], got2[VP_MAXL];
    const uint64_t one = elem<T>::to_bits(T(1));
    for (unsigned i = 0; i < W; ++i) { al[i] = c->v[0][i] & F::mask(); bl[i] = c->v[1][i] & F::mask(); }
    if (op >= OP_MUL_ADD_SEQ) { run_seq<V>(c, o, mode, al, bl); return; }
    V a = mk<V>(al), b = mk<V>(bl), r = a, r2 = a;
    bool two = (op >= OP_PREINC && op <= OP_POSTDEC);
    FpEnv before, after;
    {
        RoundGuard g(mode);
        before = FpEnv::take();
        poison_below(al[0] ^ op);
        if (op == OP_SC_SQRT) { T x = elem<T>::from_bits(al[0]), y; do_scalar_sqrt<T>(&x, &y); got[0] = elem<T>::to_bits(y); }
        else { do_op<V>(op, &a, &b, &r, &r2); rd<V>(r, got); rd<V>(r2, got2); }
        after = FpEnv::take();
        for (unsigned i = 0; i < W; ++i) {
            switch (op) {
            case OP_ADD: case OP_ADD_A: exp[i] = Ref<T>::bin(R_ADD, al[i], bl[i]); break;
            case OP_SUB: case OP_SUB_A: exp[i] = Ref<T>::bin(R_SUB, al[i], bl[i]); break;
            case OP_MUL: case OP_MUL_A: exp[i] = Ref<T>::bin(R_MUL, al[i], bl[i]); break;
            case OP_DIV: case OP_DIV_A: exp[i] = Ref<T>::bin(R_DIV, al[i], bl[i]); break;
            case OP_PREINC: exp[i] = Ref<T>::bin(R_ADD, al[i], one); exp2[i] = exp[i]; break;
            case OP_POSTINC: exp[i] = Ref<T>::bin(R_ADD, al[i], one); exp2[i] = al[i]; break;
            case OP_PREDEC: exp[i] = Ref<T>::bin(R_SUB, al[i], one); exp2[i] = exp[i]; break;
            case OP_POSTDEC: exp[i] = Ref<T>::bin(R_SUB, al[i], one); exp2[i] = al[i]; break;
            case OP_NEG: exp[i] = al[i] ^ F::sgn(); break;
            default: exp[i] = Ref<T>::un(R_SQRT, al[i]); break;
            }
        }
    }
    // classification
    bool nt = mode != 0;
    if (mode != 0) o->classes |= 1u << CL_NON_NEAREST_MODE;
    for (unsigned i = 0; i < W; ++i) {
        const bool binary = op <= OP_DIV_A;
        uint64_t x = al[i], y = binary ? bl[i] : (two ? one : al[i]);
        auto cls = [&](unsigned k) { o->classes |= 1u << k; nt = true; };
        if (F::iszero(x) || F::iszero(y) || F::iszero(exp[i])) cls(CL_ZERO);
        if (F::issub(x) || F::issub(y)) cls(CL_SUBNORMAL);
        if (F::isinf(x) || F::isinf(y)) cls(CL_INF);
        if (F::isnan(x) || F::isnan(y)) cls(CL_NAN);
        if (F::isfinite(x) && F::isfinite(y) && F::isinf(exp[i])) cls(CL_OVERFLOW);
        if (!F::iszero(x) && F::isfinite(x) && (F::issub(exp[i]) || (F::iszero(exp[i]) && op != OP_SUB && op != OP_ADD && !F::iszero(y)))) cls(CL_UNDERFLOW);
    }
    // inexact: the correctly rounded results under round-down and round-up differ
    if (op != OP_NEG) {
        for (unsigned i = 0; i < W && !(o->classes & (1u << CL_INEXACT)); ++i) {
            uint64_t y = (op <= OP_DIV_A) ? bl[i] : one;
            int rop = op == OP_SQRT || op == OP_SC_SQRT ? -1 : (op <= OP_DIV_A ? (int)(op % 4) : ((op == OP_PREINC || op == OP_POSTINC) ? R_ADD : R_SUB));
            uint64_t lo, hi;
            { RoundGuard g(1); lo = rop < 0 ? Ref<T>::un(R_SQRT, al[i]) : Ref<T>::bin(rop, al[i], y); }
            { RoundGuard g(2); hi = rop < 0 ? Ref<T>::un(R_SQRT, al[i]) : Ref<T>::bin(rop, al[i], y); }
            if (lo != hi && !F::isnan(lo)) { o->classes |= 1u << CL_INEXACT; nt = true; }
        }
    }
    // unary minus: bit-for-bit; everything else: bit-for-bit for non-NaN results, NaN-ness otherwise
    for (unsigned i = 0; i < W; ++i) {
        if (op != OP_NEG && F::isnan(exp[i]) && F::isnan(got[i])) got[i] = exp[i];
        if (two && F::isnan(exp2[i]) && F::isnan(got2[i]) && op != OP_POSTINC && op != OP_POSTDEC) got2[i] = exp2[i];
    }
    if (nt) o->nontrivial = 1; else o->classes |= 1u << CL_ORDINARY;
    if (!before.same(after)) { fail(o, -1, "fp_environment_changed", "%s changed the FP environment: MXCSR control %04x -> %04x, x87 cw %04x -> %04x", OPS[op].name, before.mxcsr_ctl, after.mxcsr_ctl, before.x87, after.x87); return; }
    char tag[96]; std::snprintf(tag, sizeof tag, "value:mode%d", mode);
    if (op == OP_NEG) std::snprintf(tag, sizeof tag, "unary_minus_bits");
    if (!cmp_lanes(o, W, exp, got, nullptr, tag, OPS[op].name)) return;
    if (two) cmp_lanes(o, W, exp2, got2, nullptr, "returned_value", "value returned by ++/--");
    for (unsigned i = 0; i < W; ++i) { o->expect[i] = exp[i]; o->actual[i] = got[i]; }
    // exact second opinion for binary32 + - * / sqrt in round-to-nearest: recompute in binary64 and round once
    if (sizeof(T) == 4 && mode == 0 && (op <= OP_DIV || op == OP_SQRT)) {
        for (unsigned i = 0; i < W; ++i) {
            uint32_t e2 = op == OP_SQRT ? ref32_sqrt_via_double((uint32_t)al[i]) : ref32_bin_via_double(op == OP_ADD ? R_ADD : op == OP_SUB ? R_SUB : op == OP_MUL ? R_MUL : R_DIV, (uint32_t)al[i], (uint32_t)bl[i]);
            bool agree = (F::isnan(e2) && F::isnan(exp[i])) || e2 == exp[i];
            if (!agree) { o->status = 1; std::snprintf(o->tag, sizeof o->tag, "harness-inconsistent"); std::snprintf(o->msg, sizeof o->msg, "reference (hardware op) and second opinion (via binary64) disagree in lane %u: %llx vs %x", i, (unsigned long long)exp[i], e2); return; }
        }
    }
}

extern "C" void vp_run(const VpCase* c, VpOutcome* o) {
    switch (c->target) {
#define X(n) case T_##n: run<avel::n>(c, o); return;
        VP_FLT_VECS(X)
#undef X
    default: o->status = 2; return;
    }
}

static uint64_t elem_one(unsigned B) { return B == 32 ? 0x3F800000ull : 0x3FF0000000000000ull; }
extern "C" void vp_enum(int tier, uint64_t seed, uint32_t shard, uint32_t nshards, void (*emit)(const VpCase*, void*), void* ctx) {
    uint32_t nt; const VpTarget* T = vp_targets(&nt);
    uint64_t job = 0;
    for (uint32_t t = 0; t < nt; ++t) {
        if (!T[t].present) continue;
        const unsigned W = T[t].width, B = T[t].bits;
        std::vector<uint64_t> L = tier ? vpl::flt_lattice(B) : vpl::flt_lattice_small(B);
        const size_t n = L.size();
        for (unsigned op = 0; op < OP_COUNT; ++op) {
            if ((job++ % nshards) != shard) continue;
            if (op == OP_SC_SQRT && W != 1) continue;
            if (op == OP_LITERAL) {
                const std::vector<uint64_t> S = vpl::flt_lattice_small(B);
                for (unsigned sel = 0; sel < 6 * N_LITERALS; ++sel) for (int mode = 0; mode < 4; ++mode) {
                    if (!tier && mode && mode != (int)((sel + seed) % 3) + 1) continue;
                    VpCase c; std::memset(&c, 0, sizeof c); c.target = t; c.op = op; c.s[0] = mode; c.s[1] = sel;
                    size_t fill = 0;
                    for (size_t i = 0; i < S.size() + 64; ++i) {
                        // the small lattice, then 64 values with full random-looking mantissas in [1, 2) and [2^-3, 2^-2) (where a reciprocal multiplication is one ulp off)
                        uint64_t v = i < S.size() ? S[i] : ((elem_one(B) - ((i & 1) ? (uint64_t(3) << (B == 32 ? 23 : 52)) : 0)) | ((0x9E3779B97F4A7C15ull * (i + sel + 1)) >> (B == 32 ? 41 : 12)));
                        c.v[0][(fill + sel) % W] = v;
                        if (++fill == W || i + 1 == S.size() + 64) { emit(&c, ctx); fill = 0; }
                    }
                }
                continue;
            }
            if (op >= OP_MUL_ADD_SEQ) {
                // products of boundary mantissas (inexact) plus an addend that cancels most of the product or sits half an ulp away: the triples where fusing shows
                const std::vector<uint64_t> S = vpl::flt_lattice_small(B);
                const size_t m = S.size();
                for (int mode = 0; mode < (op == OP_USAGE ? 32 : 4); ++mode) {
                    VpCase c; std::memset(&c, 0, sizeof c); c.target = t; c.op = op; c.s[0] = mode;       // usage forms: mode + 4 * form
                    size_t fill = 0; uint64_t rot = seed + op + mode;
                    for (size_t i = 0; i < m; i += (tier ? 1 : 2)) for (size_t j = i % 3; j < m; j += (op == OP_USAGE ? 9 : 3)) for (size_t k = (i + j) % 5; k < m; k += (tier ? 5 : 11) * (op == OP_USAGE ? 3 : 1)) {
                        unsigned lane = (unsigned)((fill + rot) % W);
                        c.v[0][lane] = S[i]; c.v[1][lane] = S[j]; c.v[2][lane] = S[k];
                        if (++fill == W) { emit(&c, ctx); fill = 0; ++rot; }
                    }
                    if (fill) emit(&c, ctx);
                }
                continue;
            }
            const bool unary = op >= OP_PREINC;
            for (int mode = 0; mode < 4; ++mode) {
                if (tier == 0 && op >= OP_ADD_A && op <= OP_DIV_A && mode != 0 && mode != (int)((seed + op) % 3) + 1) continue;   // quick: assignment forms in nearest + one directed mode
                VpCase c; std::memset(&c, 0, sizeof c); c.target = t; c.op = op; c.s[0] = mode;
                size_t fill = 0; uint64_t rot = seed + op + mode;
                const size_t step = (!unary && n > 150) ? (tier ? 8 : 2) : 1;     // thorough: every eighth pair of the full lattice (about 2 million pairs per operator and mode)
                for (size_t i = 0; i < n; ++i)
                    for (size_t j = (i % step); j < (unary ? 1 : n); j += step) {
                        unsigned lane = (unsigned)((fill + rot) % W);
                        c.v[0][lane] = L[i]; c.v[1][lane] = L[j];
                        if (++fill == W) { emit(&c, ctx); fill = 0; ++rot; }
                    }
                if (fill) emit(&c, ctx);
            }
        }
    }
}
extern "C" void vp_sweep(int, uint64_t, uint32_t, uint32_t, void (*)(const VpCase*, void*), void*, uint64_t*, uint64_t*, char* d, size_t) { d[0] = 0; }
