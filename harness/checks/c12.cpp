// C12: frexp/ldexp/scalbn/ilogb/logb/frac/fmax/fmin/fdim match the <cmath> definitions.
#define VP_CHECK_OBJECT
#include "../fpcommon.hpp"
#include "../lattice.hpp"
#include <climits>

using namespace vp;

enum { F_FREXP, F_LDEXP, F_SCALBN, F_ILOGB, F_LOGB, F_FRAC, F_FMAX, F_FMIN, F_FDIM, F_COUNT };
enum { OP_SC0 = F_COUNT, OP_COUNT = 2 * F_COUNT };
static const VpOp OPS[] = {
    {"frexp", {VK_FLT}, {}, 3}, {"ldexp", {VK_FLT, VK_RAW}, {}, 4}, {"scalbn", {VK_FLT, VK_RAW}, {}, 2}, {"ilogb", {VK_FLT}, {}, 2}, {"logb", {VK_FLT}, {}, 2}, {"frac", {VK_FLT}, {}, 2},
    {"fmax", {VK_FLT, VK_FLT_REL}, {}, 2}, {"fmin", {VK_FLT, VK_FLT_REL}, {}, 2}, {"fdim", {VK_FLT, VK_FLT_REL}, {}, 2},
    {"scalar_frexp", {VK_FLT}, {}, 1}, {"scalar_ldexp", {VK_FLT, VK_RAW}, {}, 2}, {"scalar_scalbn", {VK_FLT, VK_RAW}, {}, 1}, {"scalar_ilogb", {VK_FLT}, {}, 1}, {"scalar_logb", {VK_FLT}, {}, 1}, {"scalar_frac", {VK_FLT}, {}, 1},
    {"scalar_fmax", {VK_FLT, VK_FLT_REL}, {}, 1}, {"scalar_fmin", {VK_FLT, VK_FLT_REL}, {}, 1}, {"scalar_fdim", {VK_FLT, VK_FLT_REL}, {}, 1},
};
enum { CL_ZERO, CL_SUBNORMAL, CL_INF, CL_NAN, CL_OVERFLOW, CL_UNDERFLOW, CL_EXP_OUT_OF_RANGE, CL_EXP_EXTREME, CL_ORDINARY };
static const char* const CLASSES[] = {"zero", "subnormal_operand_or_result", "infinity", "nan", "result_overflows", "result_underflows", "exponent_outside_normal_range", "exponent_int_extreme", "ordinary"};
extern "C" const char* vp_property(void) { return "C12"; }
extern "C" const VpOp* vp_ops(uint32_t* n) { *n = OP_COUNT; return OPS; }
extern "C" const char* const* vp_class_names(uint32_t* n) { *n = 9; return CLASSES; }
extern "C" const char* vp_rule(void) {
    return "a case is a vector of float/double bit patterns (and per-lane int exponents for ldexp/scalbn, a second operand for fmax/fmin/fdim) and a function (vector form or scalar overload); "
           "non-trivial = a zero, subnormal, infinity or NaN lane, a result that over/underflows, or an exponent outside +-126 (+-1022); distinct = distinct hash of the Case";
}
#define FLTCLS(c) ((c) == 2)
VP_DEFINE_VECTOR_TARGETS(FLTCLS)

static long decode_exp(uint64_t raw) {
    int64_t x = (int64_t)raw;
    if (x >= -2200 && x <= 2200) return (long)x;
    switch ((raw >> 8) % 10) {
    case 0: return INT_MIN; case 1: return INT_MAX; case 2: return -(1L << 20); case 3: return 1L << 20; case 4: return (long)INT_MIN + 1; case 5: return (long)INT_MAX - 1;
    default: return (long)(raw % 4401) - 2200;
    }
}

template<class V> static void run(const VpCase* c, VpOutcome* o) {
    typedef typename V::scalar T;
    typedef FB<T> F;
    typedef avel::Vector<typename avel::to_index_type<T>::type, V::width> IV;
    typedef typename IV::scalar IT;
    const unsigned W = V::width;
    const bool scalar = c->op >= OP_SC0;
    const unsigned f = scalar ? c->op - OP_SC0 : c->op;
    if (scalar && W != 1) { o->status = 2; return; }
    uint64_t al[VP_MAXL], bl[VP_MAXL], el[VP_MAXL], got[VP_MAXL], gote[VP_MAXL], exp[VP_MAXL]; long ev[VP_MAXL]; int expe[VP_MAXL];
    uint8_t cmp[VP_MAXL], cmpe[VP_MAXL];
    for (unsigned i = 0; i < W; ++i) {
        al[i] = c->v[0][i] & F::mask(); bl[i] = c->v[1][i] & F::mask(); ev[i] = decode_exp(c->v[1][i]);
        el[i] = (uint64_t)(int64_t)ev[i] & elem<IT>::mask(); cmp[i] = 1; cmpe[i] = 0; gote[i] = 0; expe[i] = 0;
    }
    V a = mk<V>(al), b = mk<V>(bl); IV e = mk<IV>(el);
    V r = a; IV ir = e; bool int_result = false;
    poison_below(al[0] ^ f);
    if (!scalar) {
        switch (f) {
        case F_FREXP: { uint64_t pz[VP_MAXL]; for (unsigned i = 0; i < W; ++i) pz[i] = 0x5A5A5A5A5A5A5A5Aull & elem<IT>::mask();     // the out-parameter holds garbage before the call: every lane must be written
                        IV out = mk<IV>(pz); r = avel::frexp(a, &out); rd<IV>(out, gote); break; }
        case F_LDEXP: r = avel::ldexp(a, e); break; case F_SCALBN: r = avel::scalbn(a, e); break;
        case F_ILOGB: ir = avel::ilogb(a); int_result = true; break; case F_LOGB: r = avel::logb(a); break; case F_FRAC: r = avel::frac(a); break;
        case F_FMAX: r = avel::fmax(a, b); break; case F_FMIN: r = avel::fmin(a, b); break; default: r = avel::fdim(a, b); break;
        }
        if (int_result) rd<IV>(ir, got); else rd<V>(r, got);
    } else {
        T x = elem<T>::from_bits(al[0]), y = elem<T>::from_bits(bl[0]), z{}; IT ie = (IT)ev[0], io = (IT)0x5A5A5A5A;
        switch (f) {
        case F_FREXP: z = avel::frexp(x, &io); gote[0] = elem<IT>::to_bits(io); break;
        case F_LDEXP: z = avel::ldexp(x, ie); break; case F_SCALBN: z = avel::scalbn(x, ie); break;
        case F_ILOGB: io = avel::ilogb(x); int_result = true; break; case F_LOGB: z = avel::logb(x); break; case F_FRAC: z = avel::frac(x); break;
        case F_FMAX: z = avel::fmax(x, y); break; case F_FMIN: z = avel::fmin(x, y); break; default: z = avel::fdim(x, y); break;
        }
        got[0] = int_result ? elem<IT>::to_bits(io) : elem<T>::to_bits(z);
    }
    bool nt = false;
    auto cls = [&](unsigned k) { o->classes |= 1u << k; nt = true; };
    const char* failtag = nullptr; int bad = -1;
    for (unsigned i = 0; i < W; ++i) {
        const uint64_t x = al[i], y = bl[i];
        if (F::iszero(x)) cls(CL_ZERO); if (F::issub(x)) cls(CL_SUBNORMAL); if (F::isinf(x)) cls(CL_INF); if (F::isnan(x)) cls(CL_NAN);
        switch (f) {
        case F_FREXP: {
            int re; exp[i] = Ref<T>::frexp(x, &re); expe[i] = re;
            if (F::isnan(x)) { if (!F::isnan(got[i])) { failtag = "frexp:nan"; bad = i; } got[i] = exp[i]; }
            else if (F::isinf(x)) { exp[i] = x; }
            else { cmpe[i] = 1; if (F::iszero(x)) { exp[i] = x; expe[i] = 0; } }
            break;
        }
        case F_LDEXP: case F_SCALBN: {
            exp[i] = f == F_LDEXP ? Ref<T>::ldexp(x, ev[i]) : Ref<T>::scalbn(x, ev[i]);
            if (F::isnan(exp[i]) && F::isnan(got[i])) got[i] = exp[i];
            if (ev[i] > (long)(1 << (F::EB - 1)) - 2 || ev[i] < -(long)((1 << (F::EB - 1)) - 2)) cls(CL_EXP_OUT_OF_RANGE);
            if (ev[i] <= (long)INT_MIN + 1 || ev[i] >= (long)INT_MAX - 1) cls(CL_EXP_EXTREME);
            if (F::isfinite(x) && F::isinf(exp[i])) cls(CL_OVERFLOW);
            if (!F::iszero(x) && F::isfinite(x) && (F::iszero(exp[i]) || F::issub(exp[i]))) cls(CL_UNDERFLOW);
            if (sizeof(T) == 4) {   // exact second opinion: (float)ldexp((double)x, e) is a single rounding
                uint32_t e2 = ref32_ldexp_via_double((uint32_t)x, ev[i]);
                bool agree = (F::isnan(e2) && F::isnan(exp[i])) || e2 == exp[i];
                if (!agree) { o->status = 1; std::snprintf(o->tag, sizeof o->tag, "harness-inconsistent"); std::snprintf(o->msg, sizeof o->msg, "glibc ldexp and the binary64 second opinion disagree for 0x%llx, e=%ld", (unsigned long long)x, ev[i]); return; }
            }
            break;
        }
        case F_ILOGB: { int re = Ref<T>::ilogb(x); exp[i] = (uint64_t)(int64_t)re & elem<IT>::mask(); break; }
        case F_LOGB: exp[i] = Ref<T>::un(R_LOGB, x); if (F::isnan(exp[i]) && F::isnan(got[i])) got[i] = exp[i]; break;
        case F_FRAC:
            exp[i] = Ref<T>::un(R_FRAC, x);
            if (F::numeq(got[i], exp[i])) got[i] = exp[i];   // zero results: either sign (the statement says "zero")
            break;
        case F_FMAX: case F_FMIN: {
            if (F::isnan(y)) cls(CL_NAN); if (F::iszero(y)) cls(CL_ZERO); if (F::isinf(y)) cls(CL_INF);
            if (F::isnan(x) && F::isnan(y)) { exp[i] = x; if (F::isnan(got[i])) got[i] = exp[i]; }
            else if (F::isnan(x) || F::isnan(y)) {             // exactly one NaN: the other operand, bit for bit
                exp[i] = F::isnan(x) ? y : x;
                // a signalling NaN operand: IEEE maxNum/minNum and glibc return a quiet NaN, so either answer is accepted
                uint64_t nanop = F::isnan(x) ? x : y;
                bool signalling = !(nanop & (1ull << (F::MB - 1)));
                if (signalling && F::isnan(got[i])) got[i] = exp[i];
            }
            else {
                bool xless = F::key(x) < F::key(y);
                exp[i] = (f == F_FMAX) ? (xless ? y : x) : (xless ? x : y);
                if ((got[i] == x || got[i] == y) && F::key(got[i]) == F::key(exp[i])) exp[i] = got[i];   // either zero of a +-0 pair
            }
            break;
        }
        default: {   // fdim
            if (F::isnan(y)) cls(CL_NAN); if (F::isinf(y)) cls(CL_INF);
            if (F::isnan(x) || F::isnan(y) || (F::isinf(x) && F::isinf(y) && x == y)) { cmp[i] = 0; break; }
            exp[i] = Ref<T>::bin(R_FDIM, x, y);
            if (F::numeq(got[i], exp[i])) got[i] = exp[i];
            break;
        }
        }
    }
    if (nt) o->nontrivial = 1; else o->classes |= 1u << CL_ORDINARY;
    if (failtag) { fail(o, bad, failtag, "%s: lane %d input 0x%llx", OPS[c->op].name, bad, (unsigned long long)al[bad]); return; }
    // tag carries the input class of the first failing lane, so that findings stay narrow
    char tag[96] = "value";
    for (unsigned i = 0; i < W; ++i) if (cmp[i] && exp[i] != got[i]) {
        const char* k = F::isnan(al[i]) ? "nan" : F::isinf(al[i]) ? "inf" : F::iszero(al[i]) ? "zero" : F::issub(al[i]) ? "subnormal" : "finite";
        std::snprintf(tag, sizeof tag, "value:%s_input", k);
        if (f == F_LDEXP || f == F_SCALBN) {
            long ae = ev[i] < 0 ? -ev[i] : ev[i];
            const char* eb = ae <= (long)(1 << (F::EB - 1)) - 2 ? "small" : ae <= (long)(1 << (F::EB - 1)) + (long)F::MB + 130 ? "mid" : ae <= 2200 ? "large" : "huge";
            const char* rc = F::isnan(exp[i]) ? "nan" : F::isinf(exp[i]) ? "inf" : F::iszero(exp[i]) ? "zero" : F::issub(exp[i]) ? "subnormal" : "normal";
            std::snprintf(tag, sizeof tag, "value:%s_input:exp_%s_%s:expect_%s", k, ev[i] < 0 ? "neg" : "pos", eb, rc);
        }
        break;
    }
    if (!cmp_lanes(o, W, exp, got, cmp, tag, OPS[c->op].name)) return;
    if (f == F_FREXP) {
        uint64_t ee[VP_MAXL];
        for (unsigned i = 0; i < W; ++i) ee[i] = (uint64_t)(int64_t)expe[i] & elem<IT>::mask();
        char t2[96] = "frexp_exponent";
        for (unsigned i = 0; i < W; ++i) if (cmpe[i] && ee[i] != gote[i]) { std::snprintf(t2, sizeof t2, "frexp_exponent:%s_input", F::iszero(al[i]) ? "zero" : F::issub(al[i]) ? "subnormal" : "finite"); break; }
        cmp_lanes(o, W, ee, gote, cmpe, t2, "exponent written by frexp");
    }
}

extern "C" void vp_run(const VpCase* c, VpOutcome* o) {
    switch (c->target) {
#define X(n) case T_##n: run<avel::n>(c, o); return;
        VP_FLT_VECS(X)
#undef X
    default: o->status = 2; return;
    }
}

extern "C" void vp_enum(int tier, uint64_t seed, uint32_t shard, uint32_t nshards, void (*emit)(const VpCase*, void*), void* ctx) {
    uint32_t nt; const VpTarget* T = vp_targets(&nt);
    uint64_t job = 0;
    for (uint32_t t = 0; t < nt; ++t) {
        if (!T[t].present) continue;
        const unsigned W = T[t].width, B = T[t].bits;
        std::vector<uint64_t> L = vpl::flt_lattice(B), S = vpl::flt_lattice_small(B);
        for (unsigned op = 0; op < OP_COUNT; ++op) {
            if ((job++ % nshards) != shard) continue;
            if (op >= OP_SC0 && W != 1) continue;
            const unsigned f = op % F_COUNT;
            VpCase c; std::memset(&c, 0, sizeof c); c.target = t; c.op = op;
            size_t fill = 0; uint64_t rot = seed + op;
            if (f == F_LDEXP || f == F_SCALBN) {
                // every value class x every exponent from far below to far above the range, different exponents per lane
                std::vector<long> E; for (long e = -400; e <= 400; ++e) E.push_back(e);
                for (long e : {(long)INT_MIN, (long)INT_MIN + 1, -(1L << 20), -2200L, -1100L, -1075L, -1074L, -1023L, -1022L, 1023L, 1024L, 1100L, 2098L, 2200L, 1L << 20, (long)INT_MAX - 1, (long)INT_MAX}) E.push_back(e);
                const std::vector<uint64_t>& Lv = (f == F_LDEXP) ? S : S;
                for (size_t i = 0; i < Lv.size(); ++i)
                    for (size_t j = 0; j < E.size(); j += (tier ? 1 : 3)) {
                        unsigned lane = (unsigned)((fill + rot) % W);
                        size_t jj = (j + i) % E.size();
                        c.v[0][lane] = Lv[i];
                        long e = E[jj]; c.v[1][lane] = (e >= -2200 && e <= 2200) ? (uint64_t)(int64_t)e : (e == INT_MIN ? 0x1000ull : e == INT_MAX ? 0x1100ull : e == -(1L << 20) ? 0x1200ull : e == (1L << 20) ? 0x1300ull : e == (long)INT_MIN + 1 ? 0x1400ull : 0x1500ull);
                        if (++fill == W) { emit(&c, ctx); fill = 0; ++rot; }
                    }
                if (fill) emit(&c, ctx);
                continue;
            }
            const bool binary = f >= F_FMAX;
            const std::vector<uint64_t>& A = binary ? S : L;
            for (size_t i = 0; i < A.size(); ++i)
                for (size_t j = 0; j < (binary ? A.size() : 1); ++j) {
                    unsigned lane = (unsigned)((fill + rot) % W);
                    c.v[0][lane] = A[i]; c.v[1][lane] = binary ? A[j] : 0;
                    if (++fill == W) { emit(&c, ctx); fill = 0; ++rot; }
                }
            if (fill) emit(&c, ctx);
        }
    }
}

template<class V> static void sweep32(unsigned t, uint64_t seed, int tier, uint32_t shard, uint32_t nshards, void (*emit)(const VpCase*, void*), void* ctx, uint64_t* evals, uint64_t* lanes) {
    const unsigned W = V::width;
    const uint64_t stride = tier ? 1 : 1021;
    for (unsigned f : {F_FREXP, F_ILOGB, F_LOGB, F_FRAC}) {
        VpCase c; std::memset(&c, 0, sizeof c); c.target = t; c.op = f;
        bool failed = false;
        for (uint64_t base = ((seed * 13 + f) % stride) + (uint64_t)shard * W * stride; base < (1ull << 32) && !failed; base += (uint64_t)nshards * W * stride) {
            for (unsigned i = 0; i < W; ++i) c.v[0][i] = (base + i * stride) & 0xFFFFFFFFull;
            VpOutcome o; std::memset(&o, 0, sizeof o); o.bad_lane = -1;
            run<V>(&c, &o);
            ++*evals; *lanes += o.lanes_compared;
            if (o.status == 1) { emit(&c, ctx); failed = true; }
        }
    }
}
extern "C" void vp_sweep(int tier, uint64_t seed, uint32_t shard, uint32_t nshards, void (*emit)(const VpCase*, void*), void* ctx, uint64_t* evals, uint64_t* lanes, char* d, size_t cap) {
#define X(n) if (sizeof(avel::n::scalar) == 4) sweep32<avel::n>(T_##n, seed, tier, shard, nshards, emit, ctx, evals, lanes);
    VP_FLT_VECS(X)
#undef X
    if (tier) std::snprintf(d, cap, "all 2^32 binary32 bit patterns for frexp, ilogb, logb and frac in every float vector width"); else d[0] = 0;
}
