// Value lattices shared by the drivers and the deterministic phases of the checks.
#ifndef VP_LATTICE_HPP
#define VP_LATTICE_HPP
#include <cstdint>
#include <cstring>
#include <cmath>
#include <set>
#include <vector>
namespace vpl {
inline uint64_t maskw(unsigned w) { return w >= 64 ? ~uint64_t(0) : ((uint64_t(1) << w) - 1); }

inline std::vector<uint64_t> int_lattice(unsigned w) {
    std::set<uint64_t> s;
    uint64_t m = maskw(w);
    auto add = [&](uint64_t x) { s.insert(x & m); };
    for (uint64_t x : {0ull, 1ull, 2ull, 3ull}) { add(x); add(~x); }
    uint64_t mn = uint64_t(1) << (w - 1);
    for (int d = -2; d <= 2; ++d) add(mn + d);
    for (unsigned k = 0; k < w; ++k) {
        uint64_t p = uint64_t(1) << k;
        add(p); add(p - 1); add(p + 1); add(~p); add(~(p - 1)); add(0 - p);
    }
    add(0x5555555555555555ull); add(0xAAAAAAAAAAAAAAAAull); add(0x3333333333333333ull);
    add(0xCCCCCCCCCCCCCCCCull); add(0x0F0F0F0F0F0F0F0Full); add(0xF0F0F0F0F0F0F0F0ull);
    add(0x00FF00FF00FF00FFull); add(0xFF00FF00FF00FF00ull); add(0x0000FFFF0000FFFFull);
    add(0xFFFF0000FFFF0000ull); add(0x00000000FFFFFFFFull); add(0xFFFFFFFF00000000ull);
    add(0x00FF); add(0x0100); add(0xFF00); add(0x00FFFFFF); add(0x01000000); add(0x0080); add(0x8000); add(0x7FFF); add(0x007F);
    add(10); add(100); add(255); add(256); add(1000); add(0x7F); add(0x80); add(0x81);
    if (w == 64) {
        const uint64_t h[] = {0, 1, 0x7FFFFFFFull, 0x80000000ull, 0xFFFFFFFFull, 0x80000001ull, 0xFFFFFFFEull};
        for (uint64_t hi : h) for (uint64_t lo : h) add((hi << 32) | lo);
    }
    if (w == 32) {
        const uint64_t h[] = {0, 1, 0x7FFF, 0x8000, 0xFFFF};
        for (uint64_t hi : h) for (uint64_t lo : h) add((hi << 16) | lo);
    }
    return std::vector<uint64_t>(s.begin(), s.end());
}

inline std::vector<uint64_t> flt_lattice(unsigned w, bool small = false) {
    std::set<uint64_t> s;
    const unsigned mb = (w == 32) ? 23 : 52, eb = (w == 32) ? 8 : 11;
    const uint64_t emax = (uint64_t(1) << eb) - 1, mmask = (uint64_t(1) << mb) - 1;
    auto mkf = [&](uint64_t sign, uint64_t e, uint64_t mant) { return (sign << (w - 1)) | (e << mb) | (mant & mmask); };
    const uint64_t mants[] = {0, 1, 2, mmask, mmask - 1, uint64_t(1) << (mb - 1), (uint64_t(1) << (mb - 1)) + 1,
                              (uint64_t(1) << (mb - 1)) - 1, 0x2AAAAAAAAAAAAull & mmask, uint64_t(1) << (mb - 2)};
    for (uint64_t sg = 0; sg < 2; ++sg) {
        for (uint64_t e = 0; e <= emax; ++e) {
            bool edge = e <= 3 || e >= emax - 3 || (e + 70 >= (emax >> 1) && e <= (emax >> 1) + 70);
            if (small) edge = e <= 1 || e >= emax - 1 || (e + 2 >= (emax >> 1) && e <= (emax >> 1) + 2) || e == (emax >> 1) + mb || e == (emax >> 1) + mb + 1;
            if (w == 64 && !edge && (e % 37) != 0) continue;
            if (w == 32 && !edge && (e % 5) != 0) continue;
            if (small && !edge) continue;
            unsigned k = 0;
            for (uint64_t mt : mants) { if (small && (k++ % 3) == 2) continue; s.insert(mkf(sg, e, mt)); }
        }
    }
    // every single mantissa bit (and, for binary64, patterns confined to / straddling the low 32-bit word) for subnormals, NaNs and [1,2):
    // code that inspects the encoding word-wise or through narrower immediates depends on where the set bits are
    if (!small) for (uint64_t sg = 0; sg < 2; ++sg) for (uint64_t e : {uint64_t(0), emax, emax >> 1}) {
        for (unsigned k = 0; k < mb; ++k) { s.insert(mkf(sg, e, uint64_t(1) << k)); s.insert(mkf(sg, e, mmask ^ (uint64_t(1) << k))); }
        if (w == 64) for (uint64_t mt : {0xFFFFFFFFull, 0x80000000ull, 0x7FFFFFFFull, 0x100000000ull, 0xFFFFF00000000ull, 0x180000000ull, 0x80000001ull, 0xFFFFFFFEull}) s.insert(mkf(sg, e, mt));
    }
    // integers and half-integers near the representable-integer limits and small ties
    auto addd = [&](double d) {
        if (w == 32) { float f = (float)d; uint32_t b; std::memcpy(&b, &f, 4); s.insert(b); }
        else { uint64_t b; std::memcpy(&b, &d, 8); s.insert(b); }
    };
    if (small) { for (double d : {1.0, -1.0, 0.5, -0.5, 1.5, 2.0, -2.0, 3.0, 0.1, -100.0, 8388608.5, -2147483648.0, 1e10}) addd(d); return std::vector<uint64_t>(s.begin(), s.end()); }
    for (int k = -6; k <= 6; ++k) { addd(k); addd(k + 0.5); addd(k + 0.25); addd(k - 0.25); }
    const double lims[] = {8388608.0, 16777216.0, 2147483648.0, 4294967296.0, 4503599627370496.0, 9007199254740992.0,
                           9223372036854775808.0, 18446744073709551616.0, 4194304.0, 2251799813685248.0, 32768.0, 65536.0, 128.0, 256.0};
    for (double L : lims) for (int d = -3; d <= 3; ++d) { addd(L + d); addd(-(L + d)); addd(L + d + 0.5); addd(-(L + d + 0.5)); addd(L + d * 0.5); }
    // neighbours of 0.5 and 1
    for (double b : {0.5, 1.0, 1.5, 2.5}) {
        if (w == 32) { for (float f : {std::nextafterf((float)b, 0.f), (float)b, std::nextafterf((float)b, 9.f)}) { addd(f); addd(-f); } }
        else { for (double f : {std::nextafter(b, 0.0), b, std::nextafter(b, 9.0)}) { addd(f); addd(-f); } }
    }
    addd(3.14159265358979); addd(-2.718281828); addd(1e10); addd(-1e-10); addd(1e30); addd(1e-30); addd(123456.789); addd(0.1); addd(100.0); addd(10.0); addd(3.0);
    return std::vector<uint64_t>(s.begin(), s.end());
}


inline std::vector<uint64_t> int_lattice_small(unsigned w) { return int_lattice(w); }
inline std::vector<uint64_t> flt_lattice_small(unsigned w) { return flt_lattice(w, true); }
}  // namespace vpl
#endif
