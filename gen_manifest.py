#!/usr/bin/env python3
"""Regenerates MANIFEST.json from props.py (so that the two never disagree)."""
import json, subprocess
from props import PROPS, MANIFEST_TEXT

ALL = ["C%02d" % i for i in range(1, 21)]
checks, na = [], []
for pid in ALL:
    if pid in PROPS and pid in MANIFEST_TEXT:
        t = MANIFEST_TEXT[pid]
        checks.append({
            "property_id": pid,
            "quick_cmd": "python3 run.py %s quick" % pid,
            "thorough_cmd": "python3 run.py %s thorough" % pid,
            "evidence_file": "/verif/evidence/%s.json" % pid,
            "replay_cmd_template": "python3 run.py --replay {path}",
            "engine": t.get("engine", "rapidcheck + enumerator"),
            "level_claimed": {"category": "exploration", "text": t["level"], "design_ref": "DESIGN.md section 5 (%s)" % pid},
            "level_note": t["note"],
            "technique": t["technique"],
        })
    else:
        na.append({"property_id": pid, "reason": "check not built yet in this round (planned, see DESIGN.md section 5); not claimed until its check exists and is sound"})
try:
    fixes = subprocess.run(["git", "-C", "/repo", "log", "--format=%H %s"], stdout=subprocess.PIPE, text=True).stdout.split("\n")
except Exception:
    fixes = []
m = {
    "version": 1,
    "setup_cmd": "python3 run.py --setup",
    "hooks": {
        "guard": "AVEL_VERIF",
        "enable": "no hook is needed: every property is observed through the public API, memory, signals and the compiler; checks build /repo's headers as they are",
        "baseline_off_cmd": "cmake --build /repo/_build -j8 && /repo/_build/tests/AVEL_TESTS",
        "source_commits": [],
        "add_only": True,
    },
    "engines": [
        {"name": "rapidcheck", "path": "harness/driver.cpp", "serves_properties": [c["property_id"] for c in checks], "kind_free_text": "random generation + shrinking of config-independent Cases; own minimiser afterwards"},
        {"name": "enumerator", "path": "harness/checks/*.cpp (vp_enum / vp_sweep)", "serves_properties": [c["property_id"] for c in checks], "kind_free_text": "deterministic exhaustive / lattice cross-product generation feeding the same oracles"},
    ],
    "checks": checks,
    "not_applicable": na,
    "notes": "Technique family: property-based testing and fuzzing. Every check compiles one harness binary per (property, build configuration) from /repo's current working tree and executes it natively. Known findings: known_findings.txt. Fix commits in /repo are listed there as 'fixed:'.",
}
json.dump(m, open("MANIFEST.json", "w"), indent=1)
print("checks:", [c["property_id"] for c in checks], "not_applicable:", len(na))
